#!/bin/bash
# tools/determinism.sh [nseeds] [scale]
# Determinism self-check of the simulator: for each claimed property and each of nseeds VERIF_SEED
# values (corpus fixed to the default seed so nothing is rebuilt), the check is executed twice in
# fresh processes - once on all cores, once pinned to 3 cores under nice (different worker
# interleaving and speed) - and the history digests (wrapping sum of a hash over every caller op,
# item, location and action-log entry of every execution) and execution counts must be identical.
# Prints one line per (property, seed) and a summary; exit 0 iff no mismatch.
cd "$(dirname "${BASH_SOURCE[0]}")/.."
N="${1:-8}"; export LEXSIM_SCALE="${2:-0.02}"
export LEXSIM_CORPUS_SEED=20261002 LEXSIM_EVIDENCE_DIR=/tmp/lexsim_det_ev LEXSIM_REPLAYS_DIR=/tmp/lexsim_det_rp
bad=0; total=0
for p in C03 C05 C06 C07 C08 C09 C10 C14 C15; do
  for s in $(seq 1 "$N"); do
    seed=$((s * 7919 + 13))
    a="$(VERIF_SEED=$seed ./check $p quick 2>/dev/null | grep -o '[0-9]* executions.*digest [0-9a-f]*' | sed 's/ in [0-9.]* s//')"
    b="$(VERIF_SEED=$seed nice -n 10 taskset -c 0-2 ./check $p quick 2>/dev/null | grep -o '[0-9]* executions.*digest [0-9a-f]*' | sed 's/ in [0-9.]* s//')"
    total=$((total+1))
    if [ -n "$a" ] && [ "$a" = "$b" ]; then echo "same $p seed=$seed :: $a"; else echo "MISMATCH $p seed=$seed :: [$a] vs [$b]"; bad=$((bad+1)); fi
  done
done
rm -rf /tmp/lexsim_det_ev /tmp/lexsim_det_rp
echo "determinism: $total (property, seed) pairs executed twice, $bad mismatches"
[ "$bad" = 0 ]

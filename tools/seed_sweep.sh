#!/bin/bash
# tools/seed_sweep.sh <first> <last> [scale]  — every check on the unchanged tree for VERIF_SEED in [first,last]
# (each seed = a different program corpus, different inputs, faults and schedules). Prints one line per
# (seed, property); any line not ending in "exit=0" is an alarm on the unchanged tree and must be triaged.
cd "$(dirname "${BASH_SOURCE[0]}")/.."
export LEXSIM_SCALE="${3:-0.3}" LEXSIM_EVIDENCE_DIR=/tmp/lexsim_sweep_ev LEXSIM_REPLAYS_DIR="${SWEEP_REPLAYS:-$PWD/sweep_replays}"
bad=0
for s in $(seq "$1" "$2"); do
  for p in C03 C05 C06 C07 C08 C09 C10 C14 C15; do
    out="$(VERIF_SEED=$s ./check $p quick 2>&1)"; code=$?
    echo "seed=$s $p $(echo "$out" | grep -o '[0-9]* executions[^;]*' | head -1) warnings=$(echo "$out" | grep -c HARNESS-WARNING) exit=$code"
    if [ $code != 0 ]; then bad=$((bad+1)); echo "$out" | grep -E "^finding|^VIOLATION|HARNESS" | head -5; fi
  done
done
echo "seed sweep: $bad non-zero exits"

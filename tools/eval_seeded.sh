#!/bin/bash
# tools/eval_seeded.sh <dir> ...   — runs all nine checks against each seeded change (dir/patch.diff)
cd "$(dirname "${BASH_SOURCE[0]}")/.."
for d in "$@"; do
    echo "### $d"
    LEXSIM_SCALE="${LEXSIM_SCALE:-0.1}" tools/try_patch.sh "$d/patch.diff"
done

#!/bin/bash
# tools/seeded_pipeline.sh <src dir (patch.diff demo.rs notes.md)> <id>
# Copies a candidate seeded change to seeded/<id>/, confirms it (suite passes, demo fails with / passes
# without the patch) and runs all nine checks against it in a scratch worktree. Logs to seeded/<id>/.
set -u
cd "$(dirname "${BASH_SOURCE[0]}")/.."
SRC="$1"; ID="$2"
mkdir -p "seeded/$ID"
cp "$SRC/patch.diff" "$SRC/demo.rs" "seeded/$ID/"
[ -f "$SRC/notes.md" ] && cp "$SRC/notes.md" "seeded/$ID/notes.md"
tools/verify_seeded.sh "seeded/$ID" > "seeded/$ID/verify.log" 2>&1
echo "verify exit=$?" >> "seeded/$ID/verify.log"
LEXSIM_SCALE="${LEXSIM_SCALE:-0.1}" tools/try_patch.sh "seeded/$ID/patch.diff" > "seeded/$ID/checks.log" 2>&1
tail -1 "seeded/$ID/verify.log"; cat "seeded/$ID/checks.log"

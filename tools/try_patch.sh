#!/bin/bash
# tools/try_patch.sh <patch.diff> [property ...]
# Applies a patch to a scratch worktree of /repo (never to /repo itself), runs the given checks
# (default: all nine) against it with LEXSIM_REPO, prints one line per check, removes the worktree.
set -u
PATCH="$(readlink -f "$1")"; shift
PROPS="${*:-C03 C05 C06 C07 C08 C09 C10 C14 C15}"
WT="${LEXSIM_WT:-/tmp/lexsim_mut_$$}"
VERIF="$(cd "$(dirname "${BASH_SOURCE[0]}")/.." && pwd)"
git -C /repo worktree add -q --detach "$WT" HEAD || exit 2
TAG="mut$$"
cleanup() { git -C /repo worktree remove --force "$WT" 2>/dev/null; rm -rf "$WT"; rm -rf "$VERIF/sim/gen-$TAG" "$VERIF/sim/genr-$TAG" "$VERIF/sim/target-$TAG" "$VERIF/sim/.lock-gen-$TAG"; }
trap cleanup EXIT
if ! git -C "$WT" apply "$PATCH"; then echo "patch does not apply"; exit 2; fi
for p in $PROPS; do
    out="$(cd "$VERIF" && LEXSIM_REPO="$WT" LEXSIM_TAG="$TAG" LEXSIM_REPLAYS_DIR="/tmp/lexsim_mut_replays" LEXSIM_EVIDENCE_DIR="/tmp/lexsim_mut_evidence" ./check "$p" "${TIER:-quick}" 2>&1)"
    code=$?
    nviol="$(echo "$out" | grep -c '^VIOLATION')"
    first="$(echo "$out" | grep -m1 '^finding' | cut -c1-220)"
    warn="$(echo "$out" | grep -c 'HARNESS-WARNING')"
    echo "$p exit=$code violations_reported=$nviol dropped_crates=$warn :: $first"
done

#!/usr/bin/env python3
"""tools/results_tables.py <sensitivity log> — prints the markdown tables of DESIGN.md §9.2/§9.3 from the
sensitivity sweep log (tools/run_sensitivity.sh output) and seeded/*/meta.json."""
import json, os, re, sys, glob
ROOT = os.path.join(os.path.dirname(os.path.abspath(__file__)), "..")
PROPS = ["C03","C05","C06","C07","C08","C09","C10","C14","C15"]
def row(name, res):
    cells = []
    for p in PROPS:
        v = res.get(p)
        cells.append({None:"·", "0":"–", "1":"**X**", "2":"err"}.get(v, v))
    return "| %s | %s |" % (name, " | ".join(cells))
print("| change | " + " | ".join(PROPS) + " |")
print("|---|" + "---|"*len(PROPS))
if len(sys.argv) > 1 and os.path.exists(sys.argv[1]):
    cur, res = None, {}
    out = []
    for line in open(sys.argv[1]):
        m = re.match(r"### sensitivity/(.*)\.diff", line)
        if m:
            if cur: out.append((cur, res))
            cur, res = m.group(1), {}
        m = re.match(r"(C\d\d) exit=(\d)", line)
        if m and cur: res[m.group(1)] = m.group(2)
    if cur: out.append((cur, res))
    for name, res in out: print(row(name, res))
print()
print("| seeded change | breaks | confirmed | " + " | ".join(PROPS) + " |")
print("|---|---|---|" + "---|"*len(PROPS))
for f in sorted(glob.glob(os.path.join(ROOT, "seeded", "*", "meta.json"))):
    m = json.load(open(f))
    res = {p: ("1" if p in m["detected_by"] else "0" if p in m["quiet"] else None) for p in PROPS}
    print("| %s | %s | %s | %s |" % (m["id"], m["breaks_property"], "yes" if m["confirmed"] else "NO", " | ".join({None:"·","0":"–","1":"**X**"}[res[p]] for p in PROPS)))

#!/usr/bin/env python3
"""tools/results_tables.py <sensitivity log>... — prints the markdown tables of DESIGN.md §9.2/§9.3 from the
sensitivity sweep log (tools/run_sensitivity.sh output) and seeded/*/meta.json."""
import json, os, re, sys, glob
ROOT = os.path.join(os.path.dirname(os.path.abspath(__file__)), "..")
PROPS = ["C03","C05","C06","C07","C08","C09","C10","C14","C15"]
def row(name, res):
    cells = []
    for p in PROPS:
        v = res.get(p)
        cells.append({None:"·", "0":"–", "1":"**X**", "2":"err"}.get(v, v))
    return "| %s | %s |" % (name, " | ".join(cells))
print("| change | " + " | ".join(PROPS) + " |")
print("|---|" + "---|"*len(PROPS))
order, table = [], {}
for path in sys.argv[1:]:
    if not os.path.exists(path): continue
    cur = None
    for line in open(path):
        m = re.match(r"### sensitivity/(.*)\.diff", line)
        if m:
            cur = m.group(1)
            if cur not in table:
                table[cur] = {}; order.append(cur)
        m = re.match(r"(C\d\d) exit=(\d)", line)
        if m and cur: table[cur][m.group(1)] = m.group(2)   # later logs override earlier ones
for name in order: print(row(name, table[name]))
print()
print("| seeded change | breaks | confirmed | " + " | ".join(PROPS) + " |")
print("|---|---|---|" + "---|"*len(PROPS))
for f in sorted(glob.glob(os.path.join(ROOT, "seeded", "*", "meta.json"))):
    m = json.load(open(f))
    res = {p: ("1" if p in m["detected_by"] else "0" if p in m["quiet"] else None) for p in PROPS}
    print("| %s | %s | %s | %s |" % (m["id"], m["breaks_property"], "yes" if m["confirmed"] else "NO", " | ".join({None:"·","0":"–","1":"**X**"}[res[p]] for p in PROPS)))

#!/bin/bash
# tools/verify_seeded.sh <dir with patch.diff and demo.rs>
# Confirms in a scratch worktree: (1) suite passes with the patch, (2) demo fails with the patch,
# (3) demo passes without it. Prints a one-line verdict; exit 0 iff all three hold.
set -u
D="$(readlink -f "$1")"
WT="/tmp/lexsim_vs_$$"
export CARGO_TARGET_DIR="/tmp/seeded_target_$$" CARGO_NET_OFFLINE=true
git -C /repo worktree add -q --detach "$WT" HEAD || exit 2
trap 'git -C /repo worktree remove --force "$WT" 2>/dev/null; rm -rf "$WT" "$CARGO_TARGET_DIR"' EXIT
cd "$WT" || exit 2
git apply "$D/patch.diff" || { echo "VERDICT patch-does-not-apply"; exit 1; }
suite="$(cargo test --workspace --offline --no-fail-fast 2>&1 | grep -E '^test result' | awk '{p+=$4; f+=$6} END {print p":"f}')"
cp "$D/demo.rs" crates/lexgen/tests/seeded_demo.rs
demo_with="$(timeout 600 cargo test --offline -p lexgen --test seeded_demo 2>&1 | grep -E '^test result|error(\[|:)' | head -3 | tr '\n' ' ')"
git checkout -q -- . 
demo_without="$(timeout 600 cargo test --offline -p lexgen --test seeded_demo 2>&1 | grep -E '^test result|error(\[|:)' | head -3 | tr '\n' ' ')"
echo "suite_with_patch(pass:fail)=$suite"
echo "demo_with_patch: $demo_with"
echo "demo_without_patch: $demo_without"
ok=1
[ "$suite" = "119:0" ] || ok=0
echo "$demo_with" | grep -q "FAILED\|failed; 0 passed\| [1-9][0-9]* failed" || ok=0
echo "$demo_without" | grep -q "test result: ok" || ok=0
if [ $ok = 1 ]; then echo "VERDICT confirmed"; exit 0; else echo "VERDICT not-confirmed"; exit 1; fi

#!/bin/bash
# Runs every patch under sensitivity/ through every check (in a scratch worktree) and prints a table.
cd "$(dirname "${BASH_SOURCE[0]}")/.."
for p in sensitivity/*.diff; do
    echo "### $p"
    LEXSIM_SCALE="${LEXSIM_SCALE:-0.1}" tools/try_patch.sh "$p" "$@"
done

#!/usr/bin/env python3
"""tools/seeded_meta.py — (re)writes seeded/<id>/meta.json from seeded/<id>/{verify.log,checks.log} and the
hand-written table below (which property the change breaks and what it needs in order to manifest)."""
import json, os, re, sys
ROOT = os.path.join(os.path.dirname(os.path.abspath(__file__)), "..", "seeded")
NEEDS = {
 "C03-m1": ("C03", "codegen: reset_accepting_state() before a directly taken accepting transition only when the state left is accepting (forgets the backtrack flag): a stale recorded match survives a switch",
            "rules 'a'/'abc' shape where the long match switches rule set, then a failure in the new set on a path without an accepting state: the lexer rewinds and fires Init's rule while another set is active"),
 "C03-m2": ("C03", "runtime: backtrack() with nothing recorded resets __state but not __initial_state (partial revert of eb99d37)",
            "failure in a non-Init set that goes through backtrack() with last_match empty, then two more tokens: the second one is lexed in the failed set again"),
 "C03-m3": ("C03", "codegen: a user error returned by a =? action also resets __state/__initial_state to Init",
            "a fallible rule returning Err inside (or while switching to) a non-Init rule set, and further lexing afterwards"),
 "C05-m1": ("C05", "runtime: backtrack() clears __done also when there is nothing to rewind to",
            "Init has a `$` rule and the input ends inside a lexeme in a state that fails through backtrack() with no recorded match; one more next() call then fires `$` after the error (end-of-input acted upon twice)"),
 "C05-m2": ("C05", "compile time: State::has_no_transitions ignores the end-of-input transition, so the simplifier folds a state whose only edge is `$` into an accept",
            "a rule `R $` where the state after R has no other outgoing edge and is not an initial state; `R` and `R $` with distinct actions, or `R $` alone"),
 "C06-m1": ("C06", "runtime: fast path `char < U+1100 => col += 1` skips the display-width lookup",
            "a zero-width character below U+1100 (e.g. combining U+0301) earlier on the same line"),
 "C06-m2": ("C06", "codegen: the Err arm of backtrack() in the fail closure no longer calls reset_match()",
            "a failure through backtrack() with nothing recorded, directly followed by a returned token or another error (a skip rule in between hides it): spans/match_() swallow the rejected text"),
 "C07-m1": ("C07", "runtime: backtrack() None arm calls reset_match() before building the error, so InvalidToken points at where scanning stopped",
            "a failure routed through backtrack() with no saved match (shared suffix state reached on a non-accepting path, or an accepting state whose right context failed)"),
 "C07-m2": ("C07", "codegen: when every accepting entry of a state has a right context and none holds, the fallback now clears the saved match of a shorter prefix",
            "rules 'a', \"ab\" > 'c', \"abd\" on `abx`: the context rule's accepting state is not terminal, reached after a shorter accept, and both context and continuation fail"),
 "C08-m1": ("C08", "runtime: backtrack() None arm resets __state/__initial_state only if __initial_state != 0",
            "a failure while Init is active, through backtrack() with nothing recorded, in a non-inlined non-initial state; the following text lexes differently from the stale mid-lexeme state"),
 "C08-m2": ("C08", "codegen: the Err arm of backtrack() in the fail closure drops reset_match() (same site as C06-m2, written independently)",
            "failure through backtrack() with nothing recorded; the very next lexeme must be a returned token or another error"),
 "C09-m1": ("C09", "runtime: backtrack() borrows last_match instead of take()ing it, so the saved match is never consumed",
            "an earlier rewind in the same input, then a failure in a state that calls backtrack() without a fresh save: the lexer rewinds to the old position forever (endless item stream on finite input)"),
 "C09-m2": ("C09", "codegen: __done = true is emitted only for handled end-of-input; an unhandled one calls bare fail()",
            "Init has a `$` rule, end-of-input arrives in a state without an end-of-input transition, and next() is called once more: one end-of-input event yields two items (n+2 items)"),
 "C10-m1": ("C10", "runtime: backtrack() matches on &self.last_match (clone) instead of take() (same mechanism as C09-m1, written independently)",
            "a token selected by rewinding, directly followed by a scan that fails in a backtrack-flagged non-accepting state before any new accept: the old action runs again for the same match"),
 "C10-m2": ("C10", "codegen: reset_match() moved from the Return(res) arm into the Ok(tok) arm: Return(Err(e)) no longer resets the accumulated match",
            "a =? rule returning Err, the caller keeps iterating, and the next match is produced with no intervening reset (no skip rule in between)"),
 "C14-m1": ("C14", "runtime: Lexer::peek() reads the stored &str input at current_match_end instead of the iterator",
            "an iterator constructor (input == \"\") and an action that observes peek()"),
 "C14-m2": ("C14", "codegen: new_from_iter* poll the iterator once and pre-set __done when it is already exhausted",
            "empty character sequence, a `$` rule in Init, an iterator constructor — all together"),
 "C15-m1": ("C15", "runtime: hand-written impl Clone via struct-update over a fresh lexer forgets __done",
            "a clone taken at or after the next() call that handled end-of-input, in a rule set where end-of-input produces an item (`$` rule, or non-Init set)"),
 "C15-m2": ("C15", "codegen: thread_local 'last hit' cache shared by all search tables and all lexer values in the generated binary_search",
            "a lexer with at least two binary-search tables (classes with many ranges), one instance ending right after a class hit, then another instance (clone or a second run) looking up a character of that range in a different table"),
 "C03-m4": ("C03", "codegen: new is_inlined() (single predecessor AND <= MAX_GUARD_SIZE ranges) used for arm generation, but ctx.rs renumber_state still counts every single-predecessor state as inlined: two states get the same final index",
            "a non-initial single-predecessor state with more than 9 range transitions (big class right after a fixed prefix) directly followed in DFA order by a rule-set entry state: `switch` to that set runs the other state's code"),
 "C05-m3": ("C05", "nfa_to_dfa: the end-of-input transition is only created when the `$` target closure is not already contained in the current NFA state set",
            "a rule with an optional `$` at an accepting position (`X $?`) and an input that ends exactly there, in a non-Init set / with an Init `$` rule / with an earlier rule for the same lexeme"),
 "C06-m3": ("C06", "runtime: set_accepting_state() re-uses the saved iterator (advancing it by one) when __state is unchanged since the last save, assuming exactly one character was consumed",
            "two accepting positions of one token more than one character apart under the same __state (inlined chains, cycles through a non-accepting state) and a failed longer attempt that rewinds to the later one"),
 "C09-m3": ("C09", "backtrack analysis: a state reached again on an accepting path gets its flag raised but is not re-expanded, so its successors stay unflagged",
            "a DFA state with an accepting and a non-accepting predecessor visited first through the latter, a failure two characters past the short match (stale last_match survives the error), then only unlexable text until a state that backtracks with nothing saved: the lexer jumps back and re-lexes"),
 "C10-m3": ("C10", "codegen: set_accepting_state() is not emitted for an accepting state whose `_` transition is a direct unconditional accept",
            "a rule r plus a longer rule `r _` whose end state has no further transitions, no `$` rule after r, and an input that ends exactly after r: the selected match's action never runs (or an abandoned shorter candidate's does)"),
 "C15-m3": ("C15", "codegen: each generated right-context function keeps a one-entry memo in a `static`, keyed by the iterator's remaining length",
            "a rule with a right context, and two lexer values of the same definition (a second run, or an unrelated lexer stepped between original and clone) evaluating it at equal remaining length but different lookahead text; &str input (size hint)"),
}
def main():
    for d in sorted(os.listdir(ROOT)):
        p = os.path.join(ROOT, d)
        if d not in NEEDS or not os.path.isdir(p):
            continue
        prop, what, needs = NEEDS[d]
        verify = open(os.path.join(p, "verify.log")).read() if os.path.exists(os.path.join(p, "verify.log")) else ""
        checks = open(os.path.join(p, "checks.log")).read() if os.path.exists(os.path.join(p, "checks.log")) else ""
        det, quiet, classes = [], [], {}
        # later, targeted re-evaluations (after a strengthening of the framework) override the sweep
        import glob
        extra = ""
        for f in sorted(glob.glob(os.path.join(p, "checks_*after*.log")) + glob.glob(os.path.join(p, "checks_*with_stranger.log"))):
            extra += open(f).read()
        later = {m.group(1) for m in re.finditer(r"^(C\d\d) exit=[01]", extra, re.M)}
        checks = "\n".join(l for l in checks.splitlines() if l[:3] not in later) + "\n" + extra
        for line in checks.splitlines():
            m = re.match(r"(C\d\d) exit=(\d+) violations_reported=(\d+).*?(?:class=\[([^\]]*)\])?", line)
            if not m: continue
            (det if m.group(2) == "1" else quiet).append(m.group(1))
            m2 = re.search(r"class=\[([^\]]*)\]", line)
            if m2: classes[m.group(1)] = m2.group(1)
        meta = {
            "id": d, "breaks_property": prop, "change": what, "needs_to_manifest": needs,
            "written_by": "independent sub-agent given only the property text and a scratch worktree",
            "confirmed": "VERDICT confirmed" in verify,
            "confirmation": [l for l in verify.splitlines() if l.startswith(("suite_", "demo_", "VERDICT"))],
            "ran": ["tools/verify_seeded.sh seeded/%s  (scratch worktree: existing suite with the patch; demo.rs as crates/lexgen/tests/seeded_demo.rs with and without the patch)" % d,
                    "LEXSIM_SCALE=%s tools/try_patch.sh seeded/%s/patch.diff  (all nine quick checks against a scratch worktree with the patch applied)" % (os.environ.get("SEEDED_SCALE", "0.1"), d)],
            "detected_by": det, "quiet": quiet, "violation_classes": classes,
            "detected_by_owning_check": prop in det,
        }
        json.dump(meta, open(os.path.join(p, "meta.json"), "w"), indent=1)
        print(d, "confirmed" if meta["confirmed"] else "NOT-CONFIRMED", "detected_by", det)
main()

import json,sys
for f in sys.argv[1:]:
    d=json.load(open(f))
    print('=====',f, d['class'], d['labels'], 'minimised',d['minimised'], d['steps_before_minimisation'], 'mode', d['mode'])
    print(d['definition'])
    print('text',repr(''.join(d['spec']['text'])), 'unfused',d['spec']['unfused_at'],'ctor',d['spec']['ctor'],'ops',d['spec']['ops'],'polls',d['spec']['polls'], 'fork_sched', d['spec']['fork_sched'])
    print('overrides',{k:(v['kind'],v['reset'],v['switch'],v['separate']) for k,v in d['spec']['overrides'].items()})
    print('call',d['call'],'expected',d['expected']); print('got',d['got']); print('note',d['note'])
    print('\n'.join(d['history']))

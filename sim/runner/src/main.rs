//! lexsim runner: corpus generation, build orchestration, worker processes, watchdog, merge,
//! replay, known findings and evidence.

use serde::{Deserialize, Serialize};
use simcore::gen::{gen_program, seed_corpus, Knobs};
use simcore::ir::Program;
use simcore::rng::{mix, Rng};
use simcore::worker::{ReplayFile, Stats, WorkerArgs, HARNESS_VERSION};
use std::collections::{BTreeMap, BTreeSet};
use std::io::{BufRead, BufReader, Read, Write};
use std::os::unix::process::CommandExt;
use std::path::{Path, PathBuf};
use std::process::{Command, Stdio};
use std::time::{Duration, Instant};

const DEFAULT_SEED: u64 = 20_261_002;
const N_CRATES: usize = 16;

fn sim_dir() -> PathBuf {
    // <verif>/sim/target/debug/runner -> <verif>/sim
    if let Ok(d) = std::env::var("LEXSIM_DIR") {
        return PathBuf::from(d);
    }
    let exe = std::env::current_exe().expect("current exe");
    exe.parent()
        .and_then(|p| p.parent())
        .and_then(|p| p.parent())
        .expect("sim dir")
        .to_path_buf()
}

fn verif_dir() -> PathBuf {
    sim_dir().parent().expect("verif dir").to_path_buf()
}

fn repo_dir() -> PathBuf {
    PathBuf::from(std::env::var("LEXSIM_REPO").unwrap_or_else(|_| "/repo".into()))
}

/// Directory of the generated corpus workspace. A scratch copy of the repository (LEXSIM_REPO, used
/// for sensitivity experiments) gets its own directory so that it does not evict /repo's build.
fn gen_dir_name(base: &str) -> String {
    match tag() {
        None => base.to_string(),
        Some(t) => format!("{}-{}", base, t),
    }
}

/// Scratch copies get their own generated workspace AND their own cargo target directory: cargo
/// "uplifts" binaries to <target>/debug/<name>, so two repositories sharing a target directory
/// would overwrite each other's corpus binaries.
fn tag() -> Option<String> {
    if let Ok(t) = std::env::var("LEXSIM_TAG") {
        if !t.is_empty() {
            return Some(t);
        }
    }
    let r = repo_dir();
    if r == Path::new("/repo") {
        None
    } else {
        Some(format!("{:08x}", simcore::fx::hash_of(&r.to_string_lossy().to_string()) as u32))
    }
}

fn target_dir() -> PathBuf {
    match tag() {
        None => sim_dir().join("target"),
        Some(t) => sim_dir().join(format!("target-{}", t)),
    }
}

fn corpus_seed(seed: u64) -> u64 {
    std::env::var("LEXSIM_CORPUS_SEED")
        .ok()
        .and_then(|s| s.trim().parse().ok())
        .unwrap_or(seed)
}

fn harness_error(msg: &str) -> ! {
    eprintln!("HARNESS-ERROR: {}", msg);
    std::process::exit(2);
}

fn write_if_changed(path: &Path, content: &str) {
    if let Ok(old) = std::fs::read_to_string(path) {
        if old == content {
            return;
        }
    }
    if let Some(p) = path.parent() {
        let _ = std::fs::create_dir_all(p);
    }
    std::fs::write(path, content)
        .unwrap_or_else(|e| harness_error(&format!("write {:?}: {}", path, e)));
}

struct Sizes {
    per_crate: usize,
    rounds: u32,
    base_runs: u64,
    build_timeout: u64,
    run_timeout: u64,
}

fn sizes(property: &str, tier: &str) -> Sizes {
    let thorough = tier == "thorough";
    // base runs per round; enumeration-level checks multiply each base run by (positions x kinds)
    let base_runs: u64 = match (property, thorough) {
        ("C03", false) => 1_000_000,
        ("C03", true) => 2_500_000,
        ("C05", false) => 400_000,
        ("C05", true) => 1_000_000,
        ("C06", false) => 2_500_000,
        ("C06", true) => 6_000_000,
        ("C07", false) => 120_000,
        ("C07", true) => 200_000,
        ("C08", false) => 100_000,
        ("C08", true) => 250_000,
        ("C09", false) => 700_000,
        ("C09", true) => 1_500_000,
        ("C10", false) => 2_500_000,
        ("C10", true) => 6_000_000,
        ("C14", false) => 1_500_000,
        ("C14", true) => 4_000_000,
        ("C15", false) => 1_200_000,
        ("C15", true) => 3_000_000,
        (_, false) => 10_000,
        (_, true) => 100_000,
    };
    let scale: f64 = std::env::var("LEXSIM_SCALE")
        .ok()
        .and_then(|s| s.parse().ok())
        .unwrap_or(1.0);
    Sizes {
        per_crate: if thorough { 100 } else { 40 },
        rounds: if thorough { 8 } else { 1 },
        base_runs: ((base_runs as f64) * scale).max(1.0) as u64,
        build_timeout: std::env::var("LEXSIM_BUILD_TIMEOUT")
            .ok()
            .and_then(|s| s.parse().ok())
            .unwrap_or(if thorough { 900 } else { 300 }),
        run_timeout: if thorough { 3600 } else { 900 },
    }
}

struct CrateSpec {
    name: String,
    programs: Vec<(usize, Program)>,
}

fn corpus(seed: u64, round: u32, per_crate: usize) -> (Vec<CrateSpec>, usize) {
    let mut crates = vec![];
    let mut idx = 0usize;
    let mut seedp = vec![];
    for p in seed_corpus() {
        seedp.push((idx, p));
        idx += 1;
    }
    crates.push(CrateSpec {
        name: "c_seed".into(),
        programs: seedp,
    });
    for k in 0..N_CRATES {
        let mut r = Rng::stream(mix(seed, round as u64), "corpus", k as u64);
        let knobs = Knobs::draw(&mut r);
        let mut ps = vec![];
        for _ in 0..per_crate {
            ps.push((idx, gen_program(&mut r, &knobs)));
            idx += 1;
        }
        crates.push(CrateSpec {
            name: format!("c_{:02}", k),
            programs: ps,
        });
    }
    (crates, idx)
}

fn crate_source(c: &CrateSpec) -> String {
    let mut s = String::new();
    s.push_str("// generated by the lexsim runner from (VERIF_SEED, round); do not edit\n");
    s.push_str("#![allow(warnings)]\n");
    for (i, p) in &c.programs {
        s.push_str(&simcore::render::module(p, &format!("p{}", i)));
    }
    s.push_str("static PROGS: &[simcore::worker::ProgEntry] = &[\n");
    for (i, p) in &c.programs {
        let ir = serde_json::to_string(p).unwrap();
        s.push_str(&format!(
            "    simcore::worker::ProgEntry {{ index: {}, ir: r####\"{}\"####, make: p{}::make }},\n",
            i, ir, i
        ));
    }
    s.push_str("];\nfn main() { simcore::worker::main(PROGS) }\n");
    s
}

fn crate_manifest(name: &str) -> String {
    format!(
        "[package]\nname = \"{}\"\nversion = \"0.1.0\"\nedition = \"2021\"\n\n[dependencies]\nsimcore = {{ path = \"../../simcore\" }}\nlexgen = {{ path = \"{}/crates/lexgen\" }}\nlexgen_util = {{ path = \"{}/crates/lexgen_util\" }}\n",
        name,
        repo_dir().display(),
        repo_dir().display()
    )
}

fn write_workspace(dir: &Path, crates: &[CrateSpec]) {
    let members: Vec<String> = crates.iter().map(|c| format!("\"{}\"", c.name)).collect();
    let ws = format!(
        "[workspace]\nmembers = [{}]\nresolver = \"2\"\n\n[profile.dev]\ndebug = false\nincremental = false\nopt-level = 0\n\n[profile.dev.package.simcore]\nopt-level = 2\n\n[profile.dev.package.\"*\"]\nopt-level = 2\n",
        members.join(", ")
    );
    write_if_changed(&dir.join("Cargo.toml"), &ws);
    if !dir.join("Cargo.lock").exists() {
        let _ = std::fs::copy(sim_dir().join("Cargo.lock"), dir.join("Cargo.lock"));
    }
    for c in crates {
        write_if_changed(
            &dir.join(&c.name).join("Cargo.toml"),
            &crate_manifest(&c.name),
        );
        write_if_changed(&dir.join(&c.name).join("src/main.rs"), &crate_source(c));
    }
    // remove stale crate directories so that the workspace stays exactly what was planned
    if let Ok(rd) = std::fs::read_dir(dir) {
        for e in rd.flatten() {
            let n = e.file_name().to_string_lossy().to_string();
            if e.path().is_dir() && n.starts_with("c_") && !crates.iter().any(|c| c.name == n) {
                let _ = std::fs::remove_dir_all(e.path());
            }
        }
    }
}

/// Runs cargo under a watchdog; returns the executables it reported as up to date.
fn build(
    dir: &Path,
    crates: &[CrateSpec],
    timeout: u64,
) -> (BTreeMap<String, PathBuf>, Vec<String>) {
    let mut cmd = Command::new("cargo");
    cmd.arg("build")
        .arg("--offline")
        .arg("--keep-going")
        .arg("--message-format=json");
    for c in crates {
        cmd.arg("-p").arg(&c.name);
    }
    cmd.current_dir(dir)
        .env("CARGO_NET_OFFLINE", "true")
        .env("CARGO_TARGET_DIR", target_dir())
        .stdout(Stdio::piped())
        .stderr(Stdio::piped());
    unsafe {
        cmd.pre_exec(|| {
            libc::setpgid(0, 0);
            Ok(())
        });
    }
    let mut child = cmd
        .spawn()
        .unwrap_or_else(|e| harness_error(&format!("cannot start cargo: {}", e)));
    let pid = child.id() as i32;
    let stdout = child.stdout.take().unwrap();
    let stderr = child.stderr.take().unwrap();
    let out_thread = std::thread::spawn(move || {
        let mut exes: BTreeMap<String, PathBuf> = BTreeMap::new();
        for line in BufReader::new(stdout).lines().map_while(Result::ok) {
            if let Ok(v) = serde_json::from_str::<serde_json::Value>(&line) {
                if v["reason"] == "compiler-artifact" {
                    if let (Some(name), Some(exe)) =
                        (v["target"]["name"].as_str(), v["executable"].as_str())
                    {
                        exes.insert(name.to_string(), PathBuf::from(exe));
                    }
                }
            }
        }
        exes
    });
    let err_thread = std::thread::spawn(move || {
        let mut s = String::new();
        let _ = BufReader::new(stderr).read_to_string(&mut s);
        s
    });
    let t0 = Instant::now();
    let mut timed_out = false;
    loop {
        match child.try_wait() {
            Ok(Some(_)) => break,
            Ok(None) => {
                if t0.elapsed().as_secs() > timeout {
                    timed_out = true;
                    unsafe {
                        libc::kill(-pid, libc::SIGKILL);
                    }
                    let _ = child.wait();
                    break;
                }
                std::thread::sleep(Duration::from_millis(100));
            }
            Err(_) => break,
        }
    }
    let exes = out_thread.join().unwrap_or_default();
    let errs = err_thread.join().unwrap_or_default();
    let mut warnings = vec![];
    for c in crates {
        if !exes.contains_key(&c.name) {
            let why = if timed_out {
                format!("not built when the build watchdog fired after {} s (macro expansion does not terminate?)", timeout)
            } else {
                let mut first_err = String::new();
                let mut in_crate = false;
                for l in errs.lines() {
                    if l.contains("error") && first_err.is_empty() {
                        first_err = l.trim().to_string();
                    }
                    if l.contains(&c.name) && l.contains("could not compile") {
                        in_crate = true;
                    }
                }
                format!(
                    "does not expand or compile ({}){}",
                    first_err,
                    if in_crate { "" } else { " [see cargo output]" }
                )
            };
            warnings.push(format!("corpus crate {} dropped: {}", c.name, why));
        }
    }
    if exes.is_empty() {
        eprintln!(
            "{}",
            errs.lines()
                .filter(|l| !l.contains("warning"))
                .take(40)
                .collect::<Vec<_>>()
                .join("\n")
        );
    }
    (exes, warnings)
}

enum WorkerOut {
    Violation(Box<ReplayFile>),
    Hang { base: u64, variant: u64 },
    Stats(Box<Stats>),
    Described(Box<ReplayFile>),
    Replay(serde_json::Value),
    Many(serde_json::Value),
}

fn spawn_worker(exe: &Path, args: &WorkerArgs, tmp: &Path, tag: &str) -> std::process::Child {
    let path = tmp.join(format!("args-{}.json", tag));
    std::fs::write(&path, serde_json::to_string(args).unwrap())
        .unwrap_or_else(|e| harness_error(&format!("{}", e)));
    Command::new(exe)
        .arg(format!("@{}", path.display()))
        .stdout(Stdio::piped())
        .stderr(Stdio::null())
        .spawn()
        .unwrap_or_else(|e| harness_error(&format!("cannot start worker {:?}: {}", exe, e)))
}

fn read_worker(child: &mut std::process::Child) -> Vec<WorkerOut> {
    let mut outs = vec![];
    let stdout = child.stdout.take().unwrap();
    for line in BufReader::new(stdout).lines().map_while(Result::ok) {
        let v: serde_json::Value = match serde_json::from_str(&line) {
            Ok(v) => v,
            Err(_) => continue,
        };
        match v["t"].as_str() {
            Some("violation") => {
                if let Ok(rf) = serde_json::from_value::<ReplayFile>(v["replay"].clone()) {
                    outs.push(WorkerOut::Violation(Box::new(rf)));
                }
            }
            Some("described") => {
                if let Ok(rf) = serde_json::from_value::<ReplayFile>(v["replay"].clone()) {
                    outs.push(WorkerOut::Described(Box::new(rf)));
                }
            }
            Some("hang") => outs.push(WorkerOut::Hang {
                base: v["base"].as_u64().unwrap_or(0),
                variant: v["variant"].as_u64().unwrap_or(0),
            }),
            Some("stats") => {
                if let Ok(st) = serde_json::from_value::<Stats>(v["stats"].clone()) {
                    outs.push(WorkerOut::Stats(Box::new(st)));
                }
            }
            Some("replay") => outs.push(WorkerOut::Replay(v.clone())),
            Some("many") => outs.push(WorkerOut::Many(v.clone())),
            _ => {}
        }
    }
    outs
}

struct RoundResult {
    stats: Stats,
    violations: Vec<ReplayFile>,
    hangs: Vec<ReplayFile>,
    warnings: Vec<String>,
    programs_planned: usize,
    programs_built: usize,
    crashed_workers: Vec<String>,
}

fn run_round(
    property: &str,
    tier: &str,
    seed: u64,
    round: u32,
    sz: &Sizes,
    gen_dir: &Path,
) -> RoundResult {
    let (crates, total) = corpus(corpus_seed(seed), round, sz.per_crate);
    write_workspace(gen_dir, &crates);
    let t_build = Instant::now();
    let (exes, warnings) = build(gen_dir, &crates, sz.build_timeout);
    eprintln!(
        "[lexsim] round {}: built {}/{} corpus crates in {:.1} s",
        round,
        exes.len(),
        crates.len(),
        t_build.elapsed().as_secs_f64()
    );
    if exes.is_empty() {
        harness_error("no corpus binary could be built");
    }
    let tmp = gen_dir.join("tmp");
    let _ = std::fs::create_dir_all(&tmp);
    let mut res = RoundResult {
        stats: Stats::default(),
        violations: vec![],
        hangs: vec![],
        warnings,
        programs_planned: total,
        programs_built: 0,
        crashed_workers: vec![],
    };
    let hang_secs: u64 = std::env::var("LEXSIM_HANG_SECS")
        .ok()
        .and_then(|s| s.parse().ok())
        .unwrap_or(60);
    let mut handles = vec![];
    for c in &crates {
        let exe = match exes.get(&c.name) {
            Some(e) => e.clone(),
            None => continue,
        };
        res.programs_built += c.programs.len();
        let args = WorkerArgs {
            mode: "run".into(),
            property: property.into(),
            tier: tier.into(),
            seed,
            round,
            total_programs: total,
            base_runs: sz.base_runs,
            start_base: 0,
            max_violations: 3,
            hang_secs,
            replay: None,
            describe: None,
            many: None,
        };
        let tmp = tmp.clone();
        let name = c.name.clone();
        let run_timeout = sz.run_timeout;
        handles.push(std::thread::spawn(move || {
            let mut stats = Stats::default();
            let mut violations = vec![];
            let mut hangs: Vec<ReplayFile> = vec![];
            let mut crashed = None;
            let mut args = args;
            let t0 = Instant::now();
            for attempt in 0..4 {
                let mut child = spawn_worker(&exe, &args, &tmp, &format!("{}-{}", name, attempt));
                // second line of defence: kill a worker that outlives the whole budget
                let pid = child.id() as i32;
                let deadline = run_timeout.saturating_sub(t0.elapsed().as_secs()).max(5);
                let killer = std::thread::spawn(move || {
                    let t = Instant::now();
                    while t.elapsed().as_secs() < deadline {
                        std::thread::sleep(Duration::from_millis(200));
                        if unsafe { libc::kill(pid, 0) } != 0 {
                            return;
                        }
                    }
                    unsafe {
                        libc::kill(pid, libc::SIGKILL);
                    }
                });
                let outs = read_worker(&mut child);
                let status = child.wait().ok();
                drop(killer);
                let mut hang_at: Option<(u64, u64)> = None;
                let mut got_stats = false;
                for o in outs {
                    match o {
                        WorkerOut::Violation(rf) => violations.push(*rf),
                        WorkerOut::Stats(st) => {
                            stats.merge(&st);
                            got_stats = true;
                        }
                        WorkerOut::Hang { base, variant } => hang_at = Some((base, variant)),
                        _ => {}
                    }
                }
                match hang_at {
                    Some((base, variant)) => {
                        // have a fresh worker write the hanging run out, then resume after it
                        let mut dargs = args.clone();
                        dargs.mode = "describe".into();
                        dargs.describe = Some((base, variant as u32, 0));
                        dargs.start_base = base;
                        let mut dchild =
                            spawn_worker(&exe, &dargs, &tmp, &format!("{}-d{}", name, attempt));
                        for o in read_worker(&mut dchild) {
                            if let WorkerOut::Described(rf) = o {
                                hangs.push(*rf);
                            }
                        }
                        let _ = dchild.wait();
                        args.start_base = base + 1;
                    }
                    None => {
                        if !got_stats {
                            crashed = Some(format!(
                                "worker {} ended without statistics (status {:?})",
                                name, status
                            ));
                        }
                        break;
                    }
                }
            }
            (stats, violations, hangs, crashed)
        }));
    }
    for h in handles {
        if let Ok((st, v, hg, crashed)) = h.join() {
            res.stats.merge(&st);
            res.violations.extend(v);
            res.hangs.extend(hg);
            if let Some(c) = crashed {
                res.crashed_workers.push(c);
            }
        }
    }
    res.violations.sort_by_key(|r| (r.base_run, r.variant));
    res.hangs.sort_by_key(|r| (r.base_run, r.variant));
    res
}

// ---------------------------------------------------------------------------------------------
// Known findings

#[derive(Debug, Default)]
struct Known {
    /// (property, key) of findings deliberately left in place
    known: Vec<(String, String, String)>,
    fixed: Vec<String>,
}

fn finding_key(rf: &ReplayFile) -> String {
    let text: String = rf.spec.text.iter().collect();
    format!(
        "{:016x}",
        simcore::fx::hash_of(&(&rf.definition, &text, rf.spec.unfused_at, &rf.class))
    )
}

fn load_known() -> Known {
    let mut k = Known::default();
    let path = verif_dir().join("known_findings.txt");
    if let Ok(s) = std::fs::read_to_string(path) {
        for line in s.lines() {
            let line = line.trim();
            if line.starts_with('#') || line.is_empty() {
                continue;
            }
            if let Some(rest) = line.strip_prefix("fixed:") {
                k.fixed.push(rest.trim().to_string());
            } else if let Some(rest) = line.strip_prefix("known:") {
                let mut prop = String::new();
                let mut key = String::new();
                for w in rest.split_whitespace() {
                    if let Some(p) = w.strip_prefix("property=") {
                        prop = p.to_string();
                    }
                    if let Some(p) = w.strip_prefix("key=") {
                        key = p.to_string();
                    }
                }
                k.known.push((prop, key, rest.trim().to_string()));
            }
        }
    }
    k
}

// ---------------------------------------------------------------------------------------------
// Replay

fn replay_build(rf: &ReplayFile) -> Option<PathBuf> {
    let dir = sim_dir().join(gen_dir_name("genr"));
    let c = CrateSpec {
        name: "c_replay".into(),
        programs: vec![(rf.program_index, rf.program.clone())],
    };
    write_workspace(&dir, std::slice::from_ref(&c));
    let (exes, warnings) = build(&dir, std::slice::from_ref(&c), 300);
    for w in warnings {
        eprintln!("HARNESS-WARNING: {}", w);
    }
    exes.get("c_replay").cloned()
}

/// Re-executes a replay file in a fresh process against the current /repo.
/// Some(true) reproduced, Some(false) did not, None could not run.
fn replay_run(rf: &ReplayFile) -> Option<(bool, serde_json::Value)> {
    let exe = replay_build(rf)?;
    let tmp = sim_dir().join(gen_dir_name("genr")).join("tmp");
    let _ = std::fs::create_dir_all(&tmp);
    if rf.labels.contains(&simcore::oracle::Label::Hang) {
        // a hanging run: replay under the watchdog
        let args = WorkerArgs {
            mode: "replay".into(),
            property: rf.property.clone(),
            tier: "quick".into(),
            seed: rf.seed,
            round: rf.round,
            total_programs: 1,
            base_runs: 1,
            start_base: 0,
            max_violations: 1,
            hang_secs: 20,
            replay: Some(rf.clone()),
            describe: None,
            many: None,
        };
        let mut child = spawn_worker(&exe, &args, &tmp, "replay");
        let t0 = Instant::now();
        loop {
            match child.try_wait() {
                Ok(Some(_)) => break,
                Ok(None) => {
                    if t0.elapsed().as_secs() > 20 {
                        let _ = child.kill();
                        let _ = child.wait();
                        return Some((
                            true,
                            serde_json::json!({"reproduced": true, "note": "still hangs (killed after 20 s)"}),
                        ));
                    }
                    std::thread::sleep(Duration::from_millis(50));
                }
                Err(_) => return None,
            }
        }
        let outs = read_worker(&mut child);
        for o in outs {
            if let WorkerOut::Replay(v) = o {
                return Some((false, v));
            }
        }
        return Some((false, serde_json::json!({"reproduced": false})));
    }
    let args = WorkerArgs {
        mode: "replay".into(),
        property: rf.property.clone(),
        tier: "quick".into(),
        seed: rf.seed,
        round: rf.round,
        total_programs: 1,
        base_runs: 1,
        start_base: 0,
        max_violations: 1,
        hang_secs: 60,
        replay: Some(rf.clone()),
        describe: None,
        many: None,
    };
    let mut child = spawn_worker(&exe, &args, &tmp, "replay");
    let outs = read_worker(&mut child);
    let _ = child.wait();
    for o in outs {
        if let WorkerOut::Replay(v) = o {
            return Some((v["reproduced"].as_bool().unwrap_or(false), v));
        }
    }
    None
}

/// Program-level shrinking (DESIGN.md §7): all one-step simplifications of the program are emitted
/// as one crate, compiled once, and the smallest one that still shows the class is kept; <= 3 rounds.
fn shrink_program(rf: &ReplayFile) -> ReplayFile {
    let mut best = rf.clone();
    if rf.labels.contains(&simcore::oracle::Label::Hang) {
        return best;
    }
    for round in 0..3 {
        let cands = simcore::shrink::variants(&best.program, &best.spec, 40);
        if cands.is_empty() {
            break;
        }
        let dir = sim_dir().join(gen_dir_name("genr"));
        let c = CrateSpec {
            name: "c_shrink".into(),
            programs: cands
                .iter()
                .enumerate()
                .map(|(i, (p, _))| (i, p.clone()))
                .collect(),
        };
        write_workspace(&dir, std::slice::from_ref(&c));
        let (exes, _warnings) = build(&dir, std::slice::from_ref(&c), 300);
        let exe = match exes.get("c_shrink") {
            Some(e) => e.clone(),
            None => {
                eprintln!("[lexsim] program shrinking round {}: candidate batch does not build, keeping the current program", round);
                break;
            }
        };
        let tmp = dir.join("tmp");
        let _ = std::fs::create_dir_all(&tmp);
        let args = WorkerArgs {
            mode: "many".into(),
            property: best.property.clone(),
            tier: "quick".into(),
            seed: best.seed,
            round: best.round,
            total_programs: cands.len(),
            base_runs: 1,
            start_base: 0,
            max_violations: 1,
            hang_secs: 60,
            replay: Some(best.clone()),
            describe: None,
            many: Some(
                cands
                    .iter()
                    .enumerate()
                    .map(|(i, (_, s))| (i, s.clone()))
                    .collect(),
            ),
        };
        let mut child = spawn_worker(&exe, &args, &tmp, "many");
        let pid = child.id() as i32;
        let killer = std::thread::spawn(move || {
            let t = Instant::now();
            while t.elapsed().as_secs() < 120 {
                std::thread::sleep(Duration::from_millis(200));
                if unsafe { libc::kill(pid, 0) } != 0 {
                    return;
                }
            }
            unsafe {
                libc::kill(pid, libc::SIGKILL);
            }
        });
        let outs = read_worker(&mut child);
        let _ = child.wait();
        drop(killer);
        let mut improved = false;
        for o in outs {
            if let WorkerOut::Many(v) = o {
                let mut reps: Vec<ReplayFile> = v["results"]
                    .as_array()
                    .map(|a| {
                        a.iter()
                            .filter_map(|x| {
                                serde_json::from_value::<ReplayFile>(x["replay"].clone()).ok()
                            })
                            .collect()
                    })
                    .unwrap_or_default();
                reps.sort_by_key(|r| {
                    (simcore::shrink::program_size(&r.program), r.spec.text.len())
                });
                if let Some(r) = reps.into_iter().next() {
                    let mut r = r;
                    r.program_index = best.program_index;
                    best = r;
                    improved = true;
                }
            }
        }
        if !improved {
            break;
        }
    }
    best
}

fn cmd_replay(path: &str) -> i32 {
    let s = std::fs::read_to_string(path)
        .unwrap_or_else(|e| harness_error(&format!("cannot read {}: {}", path, e)));
    let rf: ReplayFile = serde_json::from_str(&s)
        .unwrap_or_else(|e| harness_error(&format!("not a replay file: {}", e)));
    let _lock = lock();
    match replay_run(&rf) {
        None => harness_error("the replay crate could not be built or run"),
        Some((true, v)) => {
            println!("replayed: {}", v);
            println!("VIOLATION property={} replay={}", rf.property, path);
            1
        }
        Some((false, v)) => {
            println!("replayed: {}", v);
            println!(
                "not reproduced on the current tree: property={} replay={}",
                rf.property, path
            );
            0
        }
    }
}

// ---------------------------------------------------------------------------------------------

struct Lock(#[allow(dead_code)] std::fs::File);

fn lock() -> Lock {
    use std::os::unix::io::AsRawFd;
    let f = std::fs::OpenOptions::new()
        .create(true)
        .write(true)
        .truncate(false)
        .open(sim_dir().join(format!(".lock-{}", gen_dir_name("gen"))))
        .unwrap_or_else(|e| harness_error(&format!("lock file: {}", e)));
    unsafe {
        libc::flock(f.as_raw_fd(), libc::LOCK_EX);
    }
    Lock(f)
}

#[derive(Serialize, Deserialize)]
struct Evidence {
    property_id: String,
    tier: String,
    seed: u64,
    level: String,
    coverage: serde_json::Value,
    assumptions: Vec<String>,
    wall_s: f64,
    violations: i64,
}

fn level_of(property: &str) -> &'static str {
    match property {
        "C05" | "C07" | "C08" => "fault_enumeration",
        _ => "exploration",
    }
}

fn cmd_run(property: &str, tier: &str, seed: u64) -> i32 {
    let t0 = Instant::now();
    let _lock = lock();
    let sz = sizes(property, tier);
    let gen_dir = sim_dir().join(gen_dir_name("gen"));
    let mut total = Stats::default();
    let mut violations: Vec<ReplayFile> = vec![];
    let mut hangs: Vec<ReplayFile> = vec![];
    let mut warnings: Vec<String> = vec![];
    let mut planned = 0usize;
    let mut built = 0usize;
    let mut crashed: Vec<String> = vec![];
    for round in 0..sz.rounds {
        let r = run_round(property, tier, seed, round, &sz, &gen_dir);
        total.merge(&r.stats);
        violations.extend(r.violations);
        hangs.extend(r.hangs);
        warnings.extend(r.warnings);
        planned += r.programs_planned;
        built += r.programs_built;
        crashed.extend(r.crashed_workers);
    }
    for w in &warnings {
        println!("HARNESS-WARNING: {}", w);
    }
    if !crashed.is_empty() {
        for c in &crashed {
            eprintln!("HARNESS-ERROR: {}", c);
        }
        std::process::exit(2);
    }
    // hangs are violations of C09 only
    if property == "C09" {
        violations.extend(hangs.iter().cloned());
    }
    let known = load_known();
    let replays = std::env::var("LEXSIM_REPLAYS_DIR")
        .map(PathBuf::from)
        .unwrap_or_else(|_| verif_dir().join("replays"));
    let _ = std::fs::create_dir_all(&replays);
    let mut exit = 0;
    let mut reported = 0usize;
    let mut known_hits = 0usize;
    let mut verified_one = false;
    let mut replay_attempts = 0usize;
    let mut unreplayable = 0usize;
    let mut seen_keys: BTreeSet<String> = BTreeSet::new();
    for rf in &violations {
        let key = finding_key(rf);
        if let Some((_, _, desc)) = known
            .known
            .iter()
            .find(|(p, k, _)| p == property && *k == key)
        {
            println!("KNOWN-FINDING: property={} {}", property, desc);
            known_hits += 1;
            continue;
        }
        if reported >= 5 || !seen_keys.insert(key.clone()) {
            continue;
        }
        let path = replays.join(format!(
            "{}-{}-r{}-{}-{}.json",
            property, seed, rf.round, rf.base_run, rf.variant
        ));
        // Every report is replayed in a fresh process before it is believed. Cascade: (a) the
        // (minimised) run alone; (b) the same run after the runs that preceded it on this
        // program in the worker process (behaviour that depends on earlier lexer values:
        // hidden state outside the lexer struct); (c) the run as found, after the same prelude.
        if replay_attempts >= 8 {
            continue;
        }
        replay_attempts += 1;
        let mut alone = rf.clone();
        alone.prelude.clear();
        let verified: Option<ReplayFile> = match replay_run(&alone) {
            Some((true, _)) => {
                if reported < 3 && std::env::var("LEXSIM_NO_SHRINK").is_err() {
                    let mut sh = shrink_program(&alone);
                    sh.prelude.clear();
                    if verified_one || matches!(replay_run(&sh), Some((true, _))) {
                        Some(sh)
                    } else {
                        Some(alone)
                    }
                } else {
                    Some(alone)
                }
            }
            Some((false, _)) => {
                let mut with_prelude = rf.clone();
                with_prelude.note = format!(
                    "{} | HISTORY-DEPENDENT: reproduces only after the {} preceding run(s) recorded in `prelude` (the lexer's behaviour depends on what other lexer values of the same definition did before)",
                    with_prelude.note,
                    with_prelude.prelude.len()
                );
                if !rf.prelude.is_empty() && matches!(replay_run(&with_prelude), Some((true, _))) {
                    Some(with_prelude)
                } else if let Some(orig) = &rf.original_spec {
                    let mut as_found = with_prelude.clone();
                    as_found.spec = orig.clone();
                    as_found.minimised = false;
                    if matches!(replay_run(&as_found), Some((true, _))) {
                        Some(as_found)
                    } else {
                        None
                    }
                } else {
                    None
                }
            }
            None => harness_error("the replay crate could not be built or run"),
        };
        let rf = match &verified {
            Some(f) => f,
            None => {
                unreplayable += 1;
                println!(
                    "HARNESS-NOTE: a violation observed in the simulation (key {}, class {:?}) does not reproduce in a fresh process, alone or after its recorded prelude; not reported",
                    key, rf.class
                );
                continue;
            }
        };
        verified_one = true;
        std::fs::write(&path, serde_json::to_string_pretty(rf).unwrap())
            .unwrap_or_else(|e| harness_error(&format!("cannot write replay file: {}", e)));
        println!(
            "finding key={} class={:?} call={} :: expected {} :: got {} :: {}",
            key, rf.class, rf.call, rf.expected, rf.got, rf.note
        );
        println!("VIOLATION property={} replay={}", property, path.display());
        reported += 1;
        exit = 1;
    }
    if exit == 0 && unreplayable > 0 {
        harness_error(&format!(
            "{} violation(s) were observed in the simulation but none reproduces in a fresh process",
            unreplayable
        ));
    }
    let wall = t0.elapsed().as_secs_f64();
    let probes_unreached: Vec<String> = expected_probes(property)
        .iter()
        .filter(|p| total.probes.counts.get(**p).copied().unwrap_or(0) == 0)
        .map(|s| s.to_string())
        .collect();
    let runs_per_hour = if wall > 0.0 {
        total.evaluations as f64 * 3600.0 / wall
    } else {
        0.0
    };
    let coverage = serde_json::json!({
        "evaluations": total.evaluations,
        "distinct_nontrivial": total.distinct_nontrivial,
        "rule": "evaluations = executions of a real generated lexer under the simulator (one per run spec x constructor leg x comparison execution). A run spec is a pure function of (seed, round, base-run index, variant index): program, model-guided or degenerate input, fault plan, decision seed/profile, caller schedule. Non-trivial = the run produced at least 2 observations (action events + items) and every planned fault actually struck the run (truncation/None delivered, corrupted position examined, forced action error taken). distinct = distinct hash of (program, effective input, unfused point, decision overrides, caller ops / fork-scheduler seed, constructor, decision seed, polls) among the non-trivial ones, counted per worker over disjoint program sets and summed.",
        "samples": total.samples,
        "base_runs": total.base_runs,
        "nontrivial": total.nontrivial,
        "runs_per_hour": runs_per_hour,
        "seeds_per_hour": if wall > 0.0 { 3600.0 / wall } else { 0.0 },
        "simulated_steps": total.sim_steps,
        "simulated_time_note": "there is no clock in lexgen; simulated time is the global event sequence: source reads + action invocations + caller operations",
        "faults_planned": total.faults_planned,
        "faults_fired": total.faults_fired,
        "probes": total.probes.counts,
        "probes_unreached": probes_unreached,
        "distinct_run_signatures": total.distinct_signatures,
        "protocol_transitions_covered": total.transitions.len(),
        "distinct_fork_interleavings": total.fork_signatures,
        "constructor_runs": total.ctor_runs,
        "programs_planned": planned,
        "programs_built": built,
        "programs_exercised": total.programs_exercised.len(),
        "corpus_rounds": sz.rounds,
        "max_steps_per_call_over_n_plus_2_squared_milli": total.max_step_ratio_milli,
        "other_divergences": total.other_divergences,
        "known_findings_hit": known_hits,
        "history_digest": format!("{:016x}", total.history_digest),
        "harness_warnings": warnings,
        "components_real": ["lexgen proc macro (whole pipeline, built from /repo's working tree)", "generated lexer code", "lexgen_util::Lexer", "std Peekable/Chars"],
        "components_simulated": ["input source (SimSource)", "semantic actions (Env + decide)", "caller / replica scheduler"],
        "oracle": "REF: Brzozowski-derivative reference model in lockstep + reference-free history invariants",
        "harness": HARNESS_VERSION,
        "exhaustive": false,
    });
    let ev = Evidence {
        property_id: property.into(),
        tier: tier.into(),
        seed,
        level: level_of(property).into(),
        coverage,
        assumptions: vec![
            "REF (simcore::refmodel) states the properties' semantics correctly; relaxations R1/R2 only".into(),
            "rustc, std, unicode-width and the harness are trusted".into(),
            "programs are sampled workload: nothing is claimed about coverage of the space of definitions".into(),
        ],
        wall_s: wall,
        violations: (violations.len() - known_hits) as i64,
    };
    let evdir = std::env::var("LEXSIM_EVIDENCE_DIR")
        .map(PathBuf::from)
        .unwrap_or_else(|_| verif_dir().join("evidence"));
    let _ = std::fs::create_dir_all(&evdir);
    let evpath = evdir.join(format!("{}.json", property));
    std::fs::write(&evpath, serde_json::to_string_pretty(&ev).unwrap())
        .unwrap_or_else(|e| harness_error(&format!("cannot write evidence: {}", e)));
    println!(
        "[lexsim] {} {} seed {}: {} executions ({} distinct non-trivial) over {} programs in {:.1} s; {} violation(s), {} known; digest {:016x}",
        property,
        tier,
        seed,
        total.evaluations,
        total.distinct_nontrivial,
        total.programs_exercised.len(),
        wall,
        violations.len() - known_hits,
        known_hits,
        total.history_digest
    );
    if !total.other_divergences.is_empty() {
        println!(
            "[lexsim] divergences owned by other properties (reported by their own checks): {:?}",
            total.other_divergences
        );
    }
    exit
}

fn expected_probes(property: &str) -> Vec<&'static str> {
    match property {
        "C03" => vec![
            "switch_to_set_0",
            "switch_to_set_1",
            "switch_to_set_2",
            "failure_in_other_set",
            "match_in_non_init_set_after_entry",
        ],
        "C05" => vec![
            "rewind_from_eof",
            "rewind_candidate_ends_at_eof",
            "eof_rule_in_init",
            "eof_rule_in_other_set",
            "eof_after_continue",
            "boundary_in_init",
            "boundary_in_other_set",
            "failure_at_eof_inside_lexeme",
            "poll_after_end",
            "poll_after_latch_with_resumed_source",
        ],
        "C06" => vec![
            "rewind",
            "rewind_across_newline",
            "rewind_across_multibyte",
            "action_with_accumulated_match",
            "fork",
            "fork_after_failure",
        ],
        "C07" => vec![
            "failure_at_first_char",
            "failure_mid_lexeme",
            "failure_at_eof_inside_lexeme",
            "custom_error",
            "custom_error_nonempty_match",
            "custom_error_after_reset",
            "rewind",
        ],
        "C08" => vec![
            "failure_in_init",
            "failure_in_other_set",
            "token_after_recovery",
            "consecutive_failures",
            "failure_context_starved_R1",
        ],
        "C09" => vec![
            "rewind",
            "failure_in_init",
            "continue_without_reset",
            "boundary_in_other_set",
        ],
        "C10" => vec![
            "continue_without_reset",
            "continue_with_reset",
            "action_with_accumulated_match",
            "custom_error",
            "rewind",
            "return",
        ],
        "C14" => vec!["rewind", "failure_in_init"],
        "C15" => vec![
            "fork",
            "fork_after_end",
            "fork_after_failure",
            "fork_in_non_init_set",
            "drop",
        ],
        _ => vec![],
    }
}

fn cmd_setup() -> i32 {
    let _lock = lock();
    let sz = sizes("C10", "quick");
    let gen_dir = sim_dir().join(gen_dir_name("gen"));
    let (crates, _) = corpus(corpus_seed(DEFAULT_SEED), 0, sz.per_crate);
    write_workspace(&gen_dir, &crates);
    let (exes, warnings) = build(&gen_dir, &crates, 900);
    for w in warnings {
        println!("HARNESS-WARNING: {}", w);
    }
    println!(
        "[lexsim] setup: {} of {} corpus crates built",
        exes.len(),
        crates.len()
    );
    if exes.is_empty() {
        2
    } else {
        0
    }
}

fn cmd_dump(seed: u64, round: u32, per_crate: usize) -> i32 {
    let (crates, total) = corpus(seed, round, per_crate);
    for c in &crates {
        for (i, p) in &c.programs {
            println!(
                "// program {} of {} ({}) in {}\n{}",
                i,
                total,
                p.origin,
                c.name,
                simcore::render::definition(p)
            );
        }
    }
    0
}

fn main() {
    let args: Vec<String> = std::env::args().collect();
    let seed: u64 = std::env::var("VERIF_SEED")
        .ok()
        .and_then(|s| s.trim().parse().ok())
        .unwrap_or(DEFAULT_SEED);
    let code = match args.get(1).map(|s| s.as_str()) {
        Some("run") => {
            let property = args
                .get(2)
                .cloned()
                .unwrap_or_else(|| harness_error("usage: runner run <property> <tier>"));
            let tier = args
                .get(3)
                .cloned()
                .or_else(|| std::env::var("VERIF_TIER").ok())
                .unwrap_or_else(|| "quick".into());
            cmd_run(&property, &tier, seed)
        }
        Some("replay") => cmd_replay(
            args.get(2)
                .unwrap_or_else(|| harness_error("usage: runner replay <file>")),
        ),
        Some("setup") => cmd_setup(),
        Some("dump") => cmd_dump(
            seed,
            0,
            args.get(2).and_then(|s| s.parse().ok()).unwrap_or(5),
        ),
        _ => {
            harness_error("usage: runner run <property> <tier> | replay <file> | setup | dump [n]")
        }
    };
    let _ = std::io::stdout().flush();
    std::process::exit(code);
}

#[allow(dead_code)]
fn unused(_: BTreeSet<u8>) {}

//! The worker loop that every corpus binary runs: derive run specs from (seed, run index), execute
//! them against the real generated lexers, check, minimise, report.

use crate::env::{decide, Decision, Profile};
use crate::exec::{execute, Fault, Observed, Op, RunSpec};
use crate::fx::{hash_of, FxSet};
use crate::gen::{ALIEN, ALPHABET};
use crate::ir::Program;
use crate::loc::LocTable;
use crate::oracle::{compare_forked, compare_legs, compare_repeat, Checker, Divergence, Label, Probes, Verdict};
use crate::refmodel::RefProg;
use crate::rep::{Ctor, MakeFn};
use crate::rng::{mix, Rng};
use crate::workload::*;
use serde::{Deserialize, Serialize};
use std::collections::{BTreeMap, BTreeSet};
use std::io::Write;
use std::sync::atomic::{AtomicU64, Ordering};
use std::sync::Arc;

pub const HARNESS_VERSION: &str = "lexsim-1";

pub struct ProgEntry {
    pub index: usize,
    pub ir: &'static str,
    pub make: MakeFn,
}

#[derive(Clone, Debug, Serialize, Deserialize)]
pub struct WorkerArgs {
    /// "run" | "replay" | "describe"
    pub mode: String,
    pub property: String,
    pub tier: String,
    pub seed: u64,
    pub round: u32,
    /// programs in the whole corpus of this round (all crates)
    pub total_programs: usize,
    /// base runs of the whole round
    pub base_runs: u64,
    /// first base run to execute (resuming after a hang)
    pub start_base: u64,
    pub max_violations: usize,
    pub hang_secs: u64,
    pub replay: Option<ReplayFile>,
    /// describe mode: which run
    pub describe: Option<(u64, u32, u32)>,
    /// "many" mode (program shrinking): the run spec to try against each program of this binary
    #[serde(default)]
    pub many: Option<Vec<(usize, RunSpec)>>,
}

/// A violation with everything needed to reproduce it, explicitly (DESIGN.md §7).
#[derive(Clone, Debug, Serialize, Deserialize)]
pub struct ReplayFile {
    pub harness: String,
    pub property: String,
    pub class: Vec<Label>,
    pub labels: Vec<Label>,
    pub seed: u64,
    pub round: u32,
    pub base_run: u64,
    pub variant: u32,
    pub program_index: usize,
    pub program: Program,
    pub definition: String,
    pub spec: RunSpec,
    /// "single" | "c14:<ctor>" | "c15"
    pub mode: String,
    pub call: usize,
    pub expected: String,
    pub got: String,
    pub note: String,
    pub minimised: bool,
    pub steps_before_minimisation: usize,
    /// the decisions taken, as a list (also present as `spec.overrides` once minimised)
    pub decisions: Vec<Decision>,
    pub history: Vec<String>,
    /// Runs (spec, mode) executed on the same program in the same process right before this one,
    /// oldest first. Empty unless the violation only reproduces after them, i.e. the lexer's
    /// behaviour depends on what other lexer values of the same definition did before (hidden
    /// state outside the lexer struct). Replay executes them first.
    #[serde(default)]
    pub prelude: Vec<(RunSpec, String)>,
    /// the run as it was found, when `spec` is a minimised version of it
    #[serde(default)]
    pub original_spec: Option<RunSpec>,
}

#[derive(Clone, Debug, Default, Serialize, Deserialize)]
pub struct Stats {
    pub evaluations: u64,
    pub base_runs: u64,
    pub nontrivial: u64,
    pub distinct_nontrivial: u64,
    pub distinct_signatures: u64,
    pub transitions: BTreeSet<u32>,
    pub faults_planned: BTreeMap<String, u64>,
    pub faults_fired: BTreeMap<String, u64>,
    pub probes: Probes,
    pub sim_steps: u64,
    pub violations: u64,
    pub other_divergences: BTreeMap<String, u64>,
    pub programs_exercised: BTreeSet<usize>,
    pub history_digest: u64,
    pub samples: Vec<serde_json::Value>,
    pub ctor_runs: BTreeMap<String, u64>,
    pub fork_signatures: u64,
    pub max_step_ratio_milli: u64,
    pub wall_ms: u64,
    pub last_base: u64,
}

impl Stats {
    pub fn merge(&mut self, o: &Stats) {
        self.evaluations += o.evaluations;
        self.base_runs += o.base_runs;
        self.nontrivial += o.nontrivial;
        self.distinct_nontrivial += o.distinct_nontrivial;
        self.distinct_signatures += o.distinct_signatures;
        self.transitions.extend(o.transitions.iter().copied());
        for (k, v) in &o.faults_planned {
            *self.faults_planned.entry(k.clone()).or_insert(0) += v;
        }
        for (k, v) in &o.faults_fired {
            *self.faults_fired.entry(k.clone()).or_insert(0) += v;
        }
        self.probes.merge(&o.probes);
        self.sim_steps += o.sim_steps;
        self.violations += o.violations;
        for (k, v) in &o.other_divergences {
            *self.other_divergences.entry(k.clone()).or_insert(0) += v;
        }
        self.programs_exercised.extend(o.programs_exercised.iter().copied());
        self.history_digest = self.history_digest.wrapping_add(o.history_digest);
        for s in &o.samples {
            if self.samples.len() < 3 {
                self.samples.push(s.clone());
            }
        }
        for (k, v) in &o.ctor_runs {
            *self.ctor_runs.entry(k.clone()).or_insert(0) += v;
        }
        self.fork_signatures += o.fork_signatures;
        self.max_step_ratio_milli = self.max_step_ratio_milli.max(o.max_step_ratio_milli);
        self.wall_ms = self.wall_ms.max(o.wall_ms);
    }
}

// ---------------------------------------------------------------------------------------------
// Per-property workload plans

#[derive(Clone, Debug, PartialEq, Eq)]
enum FaultMode {
    /// a fault in this percentage of runs, placed with the P1-P6 bias
    Sample(u64),
    /// every position x these kinds (the fault_enumeration level)
    Enumerate(&'static [&'static str]),
}

struct Plan {
    profiles: &'static [(Profile, u32)],
    shapes: &'static [(Shape, u32)],
    fault: FaultMode,
    /// constructors each spec is executed (and REF-checked) with
    legs: &'static [Ctor],
    max_lexemes: usize,
    /// characters tried per position for corrupt_alpha / insert under enumeration
    alpha_per_pos: usize,
    long_inputs_pct: u64,
    fork_pct: u64,
    /// exploration-level plans: share of base runs that additionally get an enumerated pass
    enum_pct: u64,
    enum_kinds: &'static [&'static str],
}

const SHAPES_DEFAULT: &[(Shape, u32)] = &[
    (Shape::ModelGuided, 70),
    (Shape::Random, 12),
    (Shape::UnicodeHeavy, 6),
    (Shape::Repeated, 5),
    (Shape::Unlexable, 4),
    (Shape::Empty, 3),
];
const SHAPES_UNICODE: &[(Shape, u32)] = &[
    (Shape::ModelGuided, 55),
    (Shape::UnicodeHeavy, 30),
    (Shape::Random, 10),
    (Shape::Repeated, 3),
    (Shape::Empty, 2),
];
const SHAPES_GUIDED: &[(Shape, u32)] = &[(Shape::ModelGuided, 90), (Shape::Random, 8), (Shape::Empty, 2)];

fn plan(property: &str, tier: &str) -> Plan {
    let thorough = tier == "thorough";
    let both: &'static [Ctor] = &[Ctor::FromSim, Ctor::NewWithState];
    match property {
        "C03" => Plan {
            profiles: &[(Profile::Tour, 75), (Profile::Chaos, 15), (Profile::Plain, 10)],
            shapes: SHAPES_GUIDED,
            fault: FaultMode::Sample(50),
            legs: both,
            max_lexemes: 12,
            alpha_per_pos: 0,
            long_inputs_pct: 0,
            fork_pct: 0,
            enum_pct: 0,
            enum_kinds: &[],
        },
        "C05" => Plan {
            profiles: &[
                (Profile::Plain, 30),
                (Profile::Accumulate, 25),
                (Profile::Tour, 25),
                (Profile::Fallible, 10),
                (Profile::Chaos, 10),
            ],
            shapes: SHAPES_GUIDED,
            fault: FaultMode::Enumerate(&["truncate", "unfused", "alien_then_truncate", "alien_then_unfused"]),
            legs: both,
            max_lexemes: if thorough { 8 } else { 6 },
            alpha_per_pos: 0,
            long_inputs_pct: 0,
            fork_pct: 0,
            enum_pct: 0,
            enum_kinds: &[],
        },
        "C06" => Plan {
            profiles: &[
                (Profile::Plain, 35),
                (Profile::Accumulate, 35),
                (Profile::Chaos, 15),
                (Profile::Tour, 15),
            ],
            shapes: SHAPES_UNICODE,
            fault: FaultMode::Sample(40),
            legs: both,
            max_lexemes: 10,
            alpha_per_pos: 0,
            long_inputs_pct: 0,
            fork_pct: 15,
            enum_pct: 0,
            enum_kinds: &[],
        },
        "C07" => Plan {
            profiles: &[(Profile::Accumulate, 45), (Profile::Fallible, 45), (Profile::Plain, 10)],
            shapes: SHAPES_GUIDED,
            fault: FaultMode::Enumerate(&["corrupt_alien", "corrupt_alpha", "truncate", "action_err", "action_err_then_alien"]),
            legs: both,
            max_lexemes: if thorough { 7 } else { 5 },
            alpha_per_pos: if thorough { ALPHABET.len() } else { 3 },
            long_inputs_pct: 0,
            fork_pct: 0,
            enum_pct: 0,
            enum_kinds: &[],
        },
        "C08" => Plan {
            profiles: &[(Profile::Tour, 70), (Profile::Chaos, 15), (Profile::Accumulate, 15)],
            shapes: SHAPES_GUIDED,
            fault: FaultMode::Enumerate(&["corrupt_alien", "corrupt_alpha", "insert", "double_alien", "alien_pair"]),
            legs: both,
            max_lexemes: if thorough { 8 } else { 6 },
            alpha_per_pos: if thorough { 4 } else { 2 },
            long_inputs_pct: 0,
            fork_pct: 0,
            enum_pct: 0,
            enum_kinds: &[],
        },
        "C09" => Plan {
            profiles: &[
                (Profile::Plain, 20),
                (Profile::Accumulate, 30),
                (Profile::Tour, 20),
                (Profile::Fallible, 10),
                (Profile::Chaos, 20),
            ],
            shapes: SHAPES_DEFAULT,
            fault: FaultMode::Sample(50),
            legs: both,
            max_lexemes: 12,
            alpha_per_pos: 0,
            long_inputs_pct: if thorough { 3 } else { 1 },
            fork_pct: 0,
            enum_pct: 15,
            enum_kinds: &["alien_pair", "double_alien"],
        },
        "C10" => Plan {
            profiles: &[(Profile::Accumulate, 40), (Profile::Chaos, 30), (Profile::Fallible, 20), (Profile::Plain, 10)],
            shapes: SHAPES_DEFAULT,
            fault: FaultMode::Sample(45),
            legs: both,
            max_lexemes: 12,
            alpha_per_pos: 0,
            long_inputs_pct: 0,
            fork_pct: 0,
            enum_pct: 0,
            enum_kinds: &[],
        },
        "C14" => Plan {
            profiles: &[
                (Profile::Plain, 30),
                (Profile::Accumulate, 30),
                (Profile::Tour, 20),
                (Profile::Fallible, 10),
                (Profile::Chaos, 10),
            ],
            shapes: SHAPES_DEFAULT,
            fault: FaultMode::Sample(50),
            legs: &[Ctor::NewWithState],
            max_lexemes: 10,
            alpha_per_pos: 0,
            long_inputs_pct: 0,
            fork_pct: 0,
            enum_pct: 0,
            enum_kinds: &[],
        },
        "C15" => Plan {
            profiles: &[
                (Profile::Plain, 25),
                (Profile::Accumulate, 30),
                (Profile::Tour, 25),
                (Profile::Fallible, 10),
                (Profile::Chaos, 10),
            ],
            shapes: SHAPES_DEFAULT,
            fault: FaultMode::Sample(40),
            legs: &[Ctor::FromSim],
            max_lexemes: 8,
            alpha_per_pos: 0,
            long_inputs_pct: 0,
            fork_pct: 100,
            enum_pct: 0,
            enum_kinds: &[],
        },
        _ => Plan {
            profiles: &[(Profile::Plain, 100)],
            shapes: SHAPES_DEFAULT,
            fault: FaultMode::Sample(30),
            legs: both,
            max_lexemes: 8,
            alpha_per_pos: 0,
            long_inputs_pct: 0,
            fork_pct: 0,
            enum_pct: 0,
            enum_kinds: &[],
        },
    }
}

fn pick_weighted<T: Copy>(r: &mut Rng, xs: &[(T, u32)]) -> T {
    let w: Vec<u32> = xs.iter().map(|x| x.1).collect();
    xs[r.weighted(&w)].0
}

// ---------------------------------------------------------------------------------------------

struct ProgCtx {
    index: usize,
    prog: Program,
    refprog: RefProg,
    make: MakeFn,
}

/// One executable unit: a spec and how it is judged.
#[derive(Clone, Debug)]
struct Unit {
    spec: RunSpec,
    /// "single" | "c14" | "c15"
    mode: &'static str,
}

struct Eval {
    /// first divergence owned by the property under check, with the mode string for the replay file
    own: Option<(Divergence, String, Observed)>,
    /// divergences owned by other properties (counted, not reported here)
    other: Vec<String>,
    verdict: Option<Verdict>,
    runs: u64,
    steps: u64,
    digest: u64,
    step_ratio_milli: u64,
    fork_sig: Option<u64>,
}

fn observed_digest(o: &Observed) -> u64 {
    hash_of(&(&o.ops, &o.calls))
}

fn steps_of(o: &Observed) -> u64 {
    o.total_reads + o.ops.len() as u64 + o.calls.iter().map(|c| c.events.len() as u64).sum::<u64>()
}

fn step_ratio(spec: &RunSpec, o: &Observed) -> u64 {
    let n = spec.text.len() as u64 + 2;
    let worst = o.calls.iter().map(|c| c.reads + c.events.len() as u64).max().unwrap_or(0);
    worst * 1000 / (n * n)
}

fn evaluate(pc: &mut ProgCtx, property: &str, unit: &Unit) -> Eval {
    let mut ev = Eval {
        own: None,
        other: vec![],
        verdict: None,
        runs: 0,
        steps: 0,
        digest: 0,
        step_ratio_milli: 0,
        fork_sig: None,
    };
    let spec = &unit.spec;
    let obs = execute(pc.make, &pc.prog, spec);
    ev.runs += 1;
    ev.steps += steps_of(&obs);
    ev.digest = ev.digest.wrapping_add(observed_digest(&obs));
    ev.step_ratio_milli = step_ratio(spec, &obs);
    let verdict = Checker { prog: &pc.prog, refprog: &mut pc.refprog }.check(spec, &obs);
    if let Some(d) = &verdict.divergence {
        if d.has_property(property) {
            ev.own = Some((d.clone(), "single".into(), obs.clone()));
        } else {
            let mut props: Vec<&str> = d.labels.iter().map(|l| l.property()).collect();
            props.sort();
            props.dedup();
            for p in props {
                ev.other.push(p.to_string());
            }
        }
    }
    ev.verdict = Some(verdict);
    if ev.own.is_some() {
        return ev;
    }
    match unit.mode {
        "c14" => {
            // the same characters and user state through every constructor
            let locs = LocTable::new(&spec.text);
            for ctor in Ctor::ALL {
                if ctor == spec.ctor {
                    continue;
                }
                if spec.unfused_at.is_some() && ctor != Ctor::FromSim && spec.ctor != Ctor::FromSim {
                    continue;
                }
                let mut s2 = spec.clone();
                s2.ctor = ctor;
                let o2 = execute(pc.make, &pc.prog, &s2);
                ev.runs += 1;
                ev.steps += steps_of(&o2);
                ev.digest = ev.digest.wrapping_add(observed_digest(&o2));
                let r2 = if spec.unfused_at.is_some() { Some((spec, &locs)) } else { None };
                if let Some(d) = compare_legs(&obs, &o2, &format!("{:?}", spec.ctor), &format!("{:?}", ctor), r2) {
                    if property == "C14" {
                        ev.own = Some((d, format!("c14:{:?}", ctor), o2));
                        return ev;
                    } else {
                        ev.other.push("C14".into());
                    }
                }
            }
        }
        "c15" => {
            let mut s0 = spec.clone();
            s0.ops = None;
            s0.fork_sched = None;
            let unforked = execute(pc.make, &pc.prog, &s0);
            ev.runs += 1;
            ev.steps += steps_of(&unforked);
            ev.digest = ev.digest.wrapping_add(observed_digest(&unforked));
            ev.fork_sig = Some(hash_of(&obs.ops));
            let d = compare_forked(&unforked, &obs).or_else(|| {
                let again = execute(pc.make, &pc.prog, spec);
                ev.runs += 1;
                compare_repeat(&obs, &again)
            });
            if let Some(d) = d {
                if property == "C15" {
                    ev.own = Some((d, "c15".into(), obs));
                    return ev;
                } else {
                    ev.other.push("C15".into());
                }
            }
        }
        _ => {}
    }
    ev
}

/// Still the same violation class? (used by the minimiser and by replay)
fn reproduces(pc: &mut ProgCtx, property: &str, unit: &Unit, class: &[Label]) -> Option<(Divergence, String, Observed)> {
    let ev = evaluate(pc, property, unit);
    match ev.own {
        Some((d, m, o)) if d.labels.iter().any(|l| class.contains(l)) => Some((d, m, o)),
        _ => None,
    }
}

fn spec_size(s: &RunSpec) -> usize {
    s.text.len() * 4
        + s.ops.as_ref().map(|o| o.len()).unwrap_or(0)
        + s.polls as usize
        + s.overrides.values().filter(|d| **d != Decision { n: d.n, ..Decision::PLAIN_RETURN }).count() * 2
        + s.faults.len()
        + s.unfused_at.is_some() as usize
}

/// Shrinks caller ops, faults, input and decisions while the same class persists (DESIGN.md §7).
fn minimise(pc: &mut ProgCtx, property: &str, unit: &Unit, class: &[Label], obs: &Observed) -> (Unit, usize) {
    let mut best = unit.clone();
    let mut tries = 0usize;
    let budget = 4000usize;
    // freeze the decisions that were taken, so that they survive edits of the text
    {
        let mut cand = best.clone();
        let cfg = cand.spec.run_cfg(&pc.prog, false);
        let max_n = obs.calls.iter().flat_map(|c| c.events.iter()).map(|e| e.n).max().unwrap_or(0);
        for c in &obs.calls {
            for e in &c.events {
                cand.spec.overrides.entry(e.n).or_insert(e.dec);
            }
        }
        for n in (max_n + 1)..(max_n + 4) {
            cand.spec.overrides.entry(n).or_insert(Decision { n, ..decide(&cfg, n, u32::MAX) });
        }
        tries += 1;
        if reproduces(pc, property, &cand, class).is_some() {
            best = cand;
        }
    }
    // explicit schedule for forked runs
    if best.spec.fork_sched.is_some() && best.spec.ops.is_none() {
        let mut cand = best.clone();
        cand.spec.ops = Some(obs.ops.clone());
        cand.spec.fork_sched = None;
        tries += 1;
        if reproduces(pc, property, &cand, class).is_some() {
            best = cand;
        }
    }
    let mut progress = true;
    while progress && tries < budget {
        progress = false;
        let mut cands: Vec<Unit> = vec![];
        // drop caller ops
        if let Some(ops) = &best.spec.ops {
            for i in (0..ops.len()).rev() {
                let mut c = best.clone();
                let mut o = ops.clone();
                o.remove(i);
                c.spec.ops = Some(o);
                cands.push(c);
            }
            if !ops.iter().any(|o| matches!(o, Op::Fork(_) | Op::Drop(_) | Op::Stranger)) {
                let mut c = best.clone();
                c.spec.ops = None;
                cands.push(c);
            }
        }
        if best.spec.polls > 0 {
            let mut c = best.clone();
            c.spec.polls = 0;
            cands.push(c);
        }
        // drop faults
        if best.spec.unfused_at.is_some() {
            let mut c = best.clone();
            c.spec.unfused_at = None;
            c.spec.faults.retain(|f| !matches!(f, Fault::Unfused { .. }));
            cands.push(c);
        }
        if !best.spec.faults.is_empty() && best.spec.text != best.spec.base_text {
            let mut c = best.clone();
            c.spec.text = c.spec.base_text.clone();
            c.spec.faults.retain(|f| matches!(f, Fault::Unfused { .. } | Fault::ActionErr { .. }));
            cands.push(c);
        }
        // delete characters (halves, then singles)
        let n = best.spec.text.len();
        let mut chunk = n / 2;
        while chunk >= 1 {
            let mut i = 0;
            while i + chunk <= n {
                let mut c = best.clone();
                c.spec.text.drain(i..i + chunk);
                if let Some(p) = c.spec.unfused_at {
                    if p > i {
                        c.spec.unfused_at = Some(p.saturating_sub(chunk).max(i).min(c.spec.text.len()));
                    }
                }
                cands.push(c);
                i += chunk;
            }
            chunk /= 2;
        }
        // simplify characters
        for i in 0..n {
            if best.spec.text[i] != 'a' {
                let mut c = best.clone();
                c.spec.text[i] = 'a';
                cands.push(c);
            }
        }
        // simplify decisions
        for (k, d) in best.spec.overrides.clone() {
            let plain = Decision { n: k, ..Decision::PLAIN_RETURN };
            if d != plain {
                let mut c = best.clone();
                c.spec.overrides.insert(k, plain);
                cands.push(c);
                if d.switch.is_some() || d.reset || d.separate {
                    let mut c = best.clone();
                    c.spec.overrides.insert(k, Decision { reset: false, switch: None, separate: false, ..d });
                    cands.push(c);
                }
            }
        }
        let cur = spec_size(&best.spec);
        for c in cands {
            if tries >= budget {
                break;
            }
            if spec_size(&c.spec) >= cur && c.spec.text.len() >= best.spec.text.len() && c.spec.text == best.spec.text && c.spec.overrides == best.spec.overrides && c.spec.ops == best.spec.ops && c.spec.polls == best.spec.polls && c.spec.unfused_at == best.spec.unfused_at {
                continue;
            }
            tries += 1;
            if reproduces(pc, property, &c, class).is_some() {
                best = c;
                progress = true;
                break;
            }
        }
    }
    // a minimised run no longer is "base text + fault": describe it as it is
    if best.spec.text != unit.spec.text {
        best.spec.base_text = best.spec.text.clone();
        best.spec.faults.retain(|f| matches!(f, Fault::Unfused { .. } | Fault::ActionErr { .. }));
    }
    (best, tries)
}

fn history_lines(o: &Observed) -> Vec<String> {
    let mut out = vec![];
    let mut cur = 0usize;
    for op in &o.ops {
        match op {
            Op::Next(r) => {
                if let Some(c) = o.calls.get(cur) {
                    out.push(format!(
                        "next(replica {}, call {}) -> {}",
                        r,
                        c.k,
                        crate::oracle::outcome_brief(&c.events, &c.item)
                    ));
                }
                cur += 1;
            }
            Op::Fork(r) => out.push(format!("fork(replica {})", r)),
            Op::Drop(r) => out.push(format!("drop(replica {})", r)),
            Op::Stranger => out.push("next(stranger: another lexer of the same definition over other text)".into()),
        }
        if out.len() > 60 {
            out.push("...".into());
            break;
        }
    }
    out
}

fn make_replay(
    args: &WorkerArgs,
    pc: &ProgCtx,
    property: &str,
    unit: &Unit,
    d: &Divergence,
    mode: &str,
    obs: &Observed,
    base: u64,
    variant: u32,
    minimised: bool,
    tries: usize,
) -> ReplayFile {
    let mut decisions = vec![];
    for c in &obs.calls {
        for e in &c.events {
            decisions.push(e.dec);
        }
    }
    ReplayFile {
        harness: HARNESS_VERSION.into(),
        property: property.into(),
        class: d.class_for(property),
        labels: d.labels.clone(),
        seed: args.seed,
        round: args.round,
        base_run: base,
        variant,
        program_index: pc.index,
        program: pc.prog.clone(),
        definition: crate::render::definition(&pc.prog),
        spec: unit.spec.clone(),
        mode: mode.into(),
        call: d.call,
        expected: d.expected.clone(),
        got: d.got.clone(),
        note: d.note.clone(),
        minimised,
        steps_before_minimisation: tries,
        decisions,
        history: history_lines(obs),
        prelude: vec![],
        original_spec: None,
    }
}

/// Long and degenerate inputs for C09: one sampled lexeme repeated. Workloads on which the
/// reference itself needs super-linear work (rewinding such as `'a'+'b' | 'a'` on `a^n`) are capped
/// at 3000 characters so that the watchdog bound is never approached by a terminating lexer.
fn long_text(r: &mut Rng, pc: &mut ProgCtx, thorough: bool, probe: &RunSpec) -> Vec<char> {
    let mut unit: Vec<char> = vec![];
    let rules = &pc.prog.sets[0].rules;
    let rule = r.pick(rules);
    sample_lexeme(&rule.re, r, &mut unit);
    if unit.is_empty() || r.chance(1, 4) {
        unit = vec![*r.pick(&crate::gen::full_alphabet())];
    }
    let target = if thorough { *r.pick(&[3000usize, 20_000, 200_000]) } else { *r.pick(&[500usize, 3000, 20_000]) };
    let build = |len: usize| {
        let mut t = Vec::with_capacity(len + unit.len());
        while t.len() < len {
            t.extend(unit.iter());
        }
        t
    };
    if target <= 3000 {
        return build(target);
    }
    // linearity pre-check on a 1500-character prefix
    let pre = build(1500);
    let w0 = pc.refprog.work;
    let _ = ref_trace(&pc.prog, &mut pc.refprog, &pre, probe);
    let work = pc.refprog.work - w0;
    if work > 40 * pre.len() as u64 {
        build(3000)
    } else {
        build(target)
    }
}

/// All units derived from base run `b` (a pure function of seed, round, b and the program).
fn units_for_base(args: &WorkerArgs, pc: &mut ProgCtx, pl: &Plan, b: u64) -> Vec<Unit> {
    let rs = mix(args.seed, args.round as u64);
    let mut r_in = Rng::stream(rs, "input", b);
    let mut r_fault = Rng::stream(rs, "faults", b);
    let mut r_sched = Rng::stream(rs, "sched", b);
    let decide_seed = Rng::stream(rs, "decide", b).next_u64();
    let profile = pick_weighted(&mut r_in, pl.profiles);
    let shape = pick_weighted(&mut r_in, pl.shapes);
    let polls = r_sched.range(1, 4) as u8;
    let long = pl.long_inputs_pct > 0 && r_in.chance(pl.long_inputs_pct, 100);
    let text = if long {
        let probe = RunSpec {
            text: vec![],
            unfused_at: None,
            decide_seed,
            profile,
            overrides: BTreeMap::new(),
            ctor: Ctor::FromSim,
            ops: None,
            polls: 0,
            fork_sched: None,
            base_text: vec![],
            faults: vec![],
            stranger: None,
        };
        long_text(&mut r_in, pc, args.tier == "thorough", &probe)
    } else {
        gen_text(&pc.prog, &mut pc.refprog, &mut r_in, shape, decide_seed, profile, pl.max_lexemes)
    };
    let base = RunSpec {
        text: text.clone(),
        unfused_at: None,
        decide_seed,
        profile,
        overrides: BTreeMap::new(),
        ctor: Ctor::FromSim,
        ops: None,
        polls,
        fork_sched: None,
        base_text: text.clone(),
        faults: vec![],
        stranger: None,
    };
    let mut specs: Vec<RunSpec> = vec![base.clone()];
    let n = text.len();
    let thorough_tier = args.tier == "thorough";
    if !long {
        let tr = ref_trace(&pc.prog, &mut pc.refprog, &text, &base);
        let place = placements(&pc.prog, &tr, n);
        let with_fault = |f: Fault| -> RunSpec {
            let (t, unf) = apply_fault(&text, &f);
            let mut s = base.clone();
            s.text = t;
            s.unfused_at = unf;
            if let Fault::ActionErr { n } = f {
                let (k, d) = err_override(n);
                s.overrides.insert(k, d);
            }
            s.faults = vec![f];
            s
        };
        if let FaultMode::Sample(pct) = &pl.fault {
            {
                if r_fault.chance(*pct, 100) {
                    if let Some(f) = sample_fault(&mut r_fault, &text, &place, true) {
                        let mut s = with_fault(f.clone());
                        // P6: sometimes a second, adjacent fault (an unlexable stretch)
                        if r_fault.chance(1, 5) {
                            if let Fault::CorruptAlien { at } | Fault::CorruptAlpha { at, .. } = f {
                                if at + 1 < s.text.len() {
                                    s.text[at + 1] = ALIEN;
                                    s.faults.push(Fault::CorruptAlien { at: at + 1 });
                                }
                            }
                        }
                        // sometimes further, independent faults later in the same run (failure,
                        // recovery, then another failure / an action error / the end of input):
                        // substitutions keep positions stable, so faults compose by position
                        let mut extra = 0;
                        let extra_pct: u64 = if args.property == "C09" { 50 } else { 25 };
                        while extra < 2 && r_fault.chance(extra_pct, 100) {
                            extra += 1;
                            let first_at = match s.faults[0] {
                                Fault::CorruptAlien { at } | Fault::CorruptAlpha { at, .. } => Some(at),
                                Fault::ActionErr { .. } => Some(0),
                                _ => None,
                            };
                            let Some(first_at) = first_at else { break };
                            if s.unfused_at.is_some() || s.text.len() != text.len() {
                                break;
                            }
                            let Some(mut g) = sample_fault(&mut r_fault, &text, &place, true) else { break };
                            // half of the time (C09) the next fault strikes shortly after the
                            // previous one: failure, no successful token, failure again - the
                            // histories in which stale rewind state can survive
                            if args.property == "C09" && r_fault.chance(1, 2) {
                                let prev = s
                                    .faults
                                    .iter()
                                    .filter_map(|f| match f {
                                        Fault::CorruptAlien { at } | Fault::CorruptAlpha { at, .. } => Some(*at),
                                        _ => None,
                                    })
                                    .max()
                                    .unwrap_or(first_at);
                                g = Fault::CorruptAlien { at: prev + 1 + r_fault.usize_below(5) };
                            }
                            let taken = |q: usize, s: &RunSpec| {
                                s.faults.iter().any(|f| matches!(f, Fault::CorruptAlien { at } | Fault::CorruptAlpha { at, .. } if *at == q))
                            };
                            match g {
                                Fault::CorruptAlien { at } if at < s.text.len() && !taken(at, &s) => {
                                    s.text[at] = ALIEN;
                                    s.faults.push(g);
                                }
                                Fault::CorruptAlpha { at, c } if at < s.text.len() && !taken(at, &s) => {
                                    s.text[at] = c;
                                    s.faults.push(g);
                                }
                                Fault::ActionErr { n } if !s.overrides.contains_key(&n) => {
                                    let (k, d) = err_override(n);
                                    s.overrides.insert(k, d);
                                    s.faults.push(g);
                                }
                                Fault::Truncate { at } if at > first_at && at < s.text.len() => {
                                    s.text.truncate(at);
                                    s.faults.push(g);
                                }
                                Fault::Unfused { at } if at > first_at && at < s.text.len() => {
                                    s.unfused_at = Some(at);
                                    s.faults.push(g);
                                }
                                _ => {}
                            }
                        }
                        specs.push(s);
                    }
                }
            }
        }
        {
            {
                // enumeration-level checks enumerate for every base run; exploration-level checks
                // may add an enumerated pass (`enum_kinds`) for a share of their base runs
                let kinds: &[&str] = match &pl.fault {
                    FaultMode::Enumerate(k) => k,
                    FaultMode::Sample(_) => {
                        if pl.enum_pct > 0 && r_fault.chance(pl.enum_pct, 100) {
                            pl.enum_kinds
                        } else {
                            &[]
                        }
                    }
                };
                for kind in kinds.iter() {
                    match *kind {
                        "truncate" => {
                            for p in 0..n {
                                specs.push(with_fault(Fault::Truncate { at: p }));
                            }
                        }
                        "unfused" => {
                            for p in 0..n {
                                specs.push(with_fault(Fault::Unfused { at: p }));
                            }
                        }
                        "corrupt_alien" => {
                            for p in 0..n {
                                specs.push(with_fault(Fault::CorruptAlien { at: p }));
                            }
                        }
                        "double_alien" => {
                            for p in 0..n.saturating_sub(1) {
                                let mut s = with_fault(Fault::CorruptAlien { at: p });
                                s.text[p + 1] = ALIEN;
                                s.faults.push(Fault::CorruptAlien { at: p + 1 });
                                specs.push(s);
                            }
                        }
                        // an unlexable character at p and the end of input at every (thorough) or
                        // two sampled (quick) later positions q: failure, recovery, then EOF
                        "alien_then_truncate" | "alien_then_unfused" => {
                            for p in 0..n {
                                let mut qs: Vec<usize> = ((p + 1)..n).collect();
                                if !thorough_tier {
                                    while qs.len() > 2 {
                                        let i = r_fault.usize_below(qs.len());
                                        qs.remove(i);
                                    }
                                }
                                for q in qs {
                                    let mut s = with_fault(Fault::CorruptAlien { at: p });
                                    if *kind == "alien_then_truncate" {
                                        s.text.truncate(q);
                                        s.faults.push(Fault::Truncate { at: q });
                                    } else {
                                        s.unfused_at = Some(q);
                                        s.faults.push(Fault::Unfused { at: q });
                                    }
                                    specs.push(s);
                                }
                            }
                        }
                        // two unlexable characters at independent positions p < q: failure,
                        // recovery in Init, tokens, a second failure (possibly in another rule set)
                        "alien_pair" => {
                            for p in 0..n {
                                let mut qs: Vec<usize> = ((p + 2)..n).collect();
                                if !thorough_tier {
                                    while qs.len() > 2 {
                                        let i = r_fault.usize_below(qs.len());
                                        qs.remove(i);
                                    }
                                }
                                for q in qs {
                                    let mut s = with_fault(Fault::CorruptAlien { at: p });
                                    s.text[q] = ALIEN;
                                    s.faults.push(Fault::CorruptAlien { at: q });
                                    specs.push(s);
                                }
                            }
                        }
                        // a forced action error at invocation k and an unlexable character at
                        // every position: Custom error and InvalidToken in one history
                        "action_err_then_alien" => {
                            for k in &place.fallible_invocations {
                                let mut ps: Vec<usize> = (0..n).collect();
                                if !thorough_tier {
                                    while ps.len() > 3 {
                                        let i = r_fault.usize_below(ps.len());
                                        ps.remove(i);
                                    }
                                }
                                for p in ps {
                                    let mut s = with_fault(Fault::ActionErr { n: *k });
                                    s.text[p] = ALIEN;
                                    s.faults.push(Fault::CorruptAlien { at: p });
                                    specs.push(s);
                                }
                            }
                        }
                        "corrupt_alpha" => {
                            for p in 0..n {
                                let mut cs: Vec<char> = ALPHABET.iter().copied().filter(|c| *c != text[p]).collect();
                                while cs.len() > pl.alpha_per_pos {
                                    let i = r_fault.usize_below(cs.len());
                                    cs.remove(i);
                                }
                                for c in cs {
                                    specs.push(with_fault(Fault::CorruptAlpha { at: p, c }));
                                }
                            }
                        }
                        "insert" => {
                            for p in 0..=n {
                                specs.push(with_fault(Fault::Insert { at: p, c: ALIEN }));
                                for _ in 0..pl.alpha_per_pos.min(1) {
                                    let c = *r_fault.pick(&ALPHABET);
                                    specs.push(with_fault(Fault::Insert { at: p, c }));
                                }
                            }
                        }
                        "action_err" => {
                            for k in &place.fallible_invocations {
                                specs.push(with_fault(Fault::ActionErr { n: *k }));
                            }
                        }
                        _ => {}
                    }
                }
            }
        }
    }
    let mut units = vec![];
    for s in specs {
        match args.property.as_str() {
            "C14" => {
                let mut s = s;
                if s.unfused_at.is_some() {
                    s.ctor = Ctor::FromSim;
                } else {
                    s.ctor = Ctor::NewWithState;
                }
                units.push(Unit { spec: s, mode: "c14" });
            }
            "C15" => {
                let mut s = s;
                s.ctor = if r_sched.chance(3, 4) { Ctor::FromSim } else { Ctor::NewWithState };
                if s.ctor != Ctor::FromSim {
                    if let Some(p) = s.unfused_at.take() {
                        s.text.truncate(p);
                    }
                }
                // a seeded random interleaving of up to four replicas ...
                // an unrelated lexer value of the same definition, over other text of the same
                // length (so that position-keyed hidden state collides), stepped in between
                let stranger_text = |r: &mut Rng, t: &[char]| -> Vec<char> {
                    let mut x = t.to_vec();
                    match r.below(3) {
                        0 => x.reverse(),
                        1 => {
                            if !x.is_empty() {
                                x.rotate_left(1)
                            }
                        }
                        _ => {
                            for c in x.iter_mut() {
                                if r.chance(1, 3) {
                                    *c = *r.pick(&ALPHABET);
                                }
                            }
                        }
                    }
                    x
                };
                let with_stranger = r_sched.chance(1, 2);
                let mut a = s.clone();
                a.fork_sched = Some(r_sched.next_u64());
                if with_stranger {
                    a.stranger = Some(stranger_text(&mut r_sched, &s.text));
                }
                units.push(Unit { spec: a, mode: "c15" });
                // ... and a fork before call k, both replicas driven alternately, for a sampled k
                let k = r_sched.range(0, 9);
                let mut ops = vec![Op::Next(0); k];
                ops.push(Op::Fork(0));
                for _ in 0..(s.text.len() + 4 + s.polls as usize) {
                    ops.push(Op::Next(1));
                    if with_stranger {
                        ops.push(Op::Stranger);
                    }
                    ops.push(Op::Next(0));
                }
                let mut bspec = s.clone();
                if with_stranger {
                    bspec.stranger = Some(stranger_text(&mut r_sched, &s.text));
                }
                bspec.ops = Some(ops);
                units.push(Unit { spec: bspec, mode: "c15" });
            }
            _ => {
                for ctor in pl.legs {
                    let mut s2 = s.clone();
                    s2.ctor = *ctor;
                    if *ctor != Ctor::FromSim {
                        if let Some(p) = s2.unfused_at {
                            // string constructors cannot resume: they see the truncated text
                            // (that run is the `truncate@p` run; not repeated here)
                            let _ = p;
                            continue;
                        }
                    }
                    if pl.fork_pct > 0 && r_sched.chance(pl.fork_pct, 100) {
                        s2.fork_sched = Some(r_sched.next_u64());
                    }
                    units.push(Unit { spec: s2, mode: "single" });
                }
            }
        }
    }
    units
}

fn emit(line: &serde_json::Value) {
    let out = std::io::stdout();
    let mut h = out.lock();
    let _ = writeln!(h, "{}", line);
    let _ = h.flush();
}

pub fn main(progs: &[ProgEntry]) {
    // keep panics inside next() quiet: they are observations, not crashes of the harness
    std::panic::set_hook(Box::new(|_| {}));
    let arg = std::env::args().nth(1).unwrap_or_default();
    let args: WorkerArgs = if let Some(path) = arg.strip_prefix('@') {
        serde_json::from_str(&std::fs::read_to_string(path).expect("args file")).expect("args json")
    } else {
        serde_json::from_str(&arg).expect("args json")
    };
    let mut ctxs: Vec<ProgCtx> = progs
        .iter()
        .map(|p| {
            let prog: Program = serde_json::from_str(p.ir).expect("program IR");
            let refprog = RefProg::new(&prog);
            ProgCtx { index: p.index, prog, refprog, make: p.make }
        })
        .collect();
    match args.mode.as_str() {
        "replay" => replay_main(&args, &mut ctxs),
        "many" => many_main(&args, &mut ctxs),
        _ => run_main(&args, &mut ctxs),
    }
}

fn replay_main(args: &WorkerArgs, ctxs: &mut [ProgCtx]) {
    let rf = args.replay.as_ref().expect("replay file");
    let pc = &mut ctxs[0];
    assert_eq!(pc.prog, rf.program, "replay binary was built from a different program");
    let mode: &'static str = if rf.mode.starts_with("c14") {
        "c14"
    } else if rf.mode == "c15" {
        "c15"
    } else {
        "single"
    };
    for (ps, pm) in &rf.prelude {
        let pmode: &'static str = if pm.starts_with("c14") {
            "c14"
        } else if pm == "c15" {
            "c15"
        } else {
            "single"
        };
        let _ = evaluate(pc, &rf.property, &Unit { spec: ps.clone(), mode: pmode });
    }
    let unit = Unit { spec: rf.spec.clone(), mode };
    let ev = evaluate(pc, &rf.property, &unit);
    let res = match &ev.own {
        Some((d, m, o)) => serde_json::json!({
            "t": "replay",
            "reproduced": d.labels.iter().any(|l| rf.class.contains(l)),
            "labels": d.labels,
            "call": d.call,
            "mode": m,
            "expected": d.expected,
            "got": d.got,
            "note": d.note,
            "history": history_lines(o),
        }),
        None => serde_json::json!({"t": "replay", "reproduced": false, "labels": [], "other": ev.other}),
    };
    emit(&res);
}

/// Program shrinking: which of the candidate programs still show the violation class, and with
/// which (re-minimised) run.
fn many_main(args: &WorkerArgs, ctxs: &mut [ProgCtx]) {
    let rf = args.replay.as_ref().expect("replay template");
    let mode: &'static str = if rf.mode.starts_with("c14") {
        "c14"
    } else if rf.mode == "c15" {
        "c15"
    } else {
        "single"
    };
    let mut results = vec![];
    for (idx, spec) in args.many.as_ref().expect("candidates") {
        let pc = match ctxs.iter_mut().find(|c| c.index == *idx) {
            Some(pc) => pc,
            None => continue,
        };
        let unit = Unit { spec: spec.clone(), mode };
        if let Some((_, _, obs)) = reproduces(pc, &rf.property, &unit, &rf.class) {
            let (munit, tries) = minimise(pc, &rf.property, &unit, &rf.class, &obs);
            if let Some((d2, m2, o2)) = reproduces(pc, &rf.property, &munit, &rf.class) {
                let out = make_replay(args, pc, &rf.property, &munit, &d2, &m2, &o2, rf.base_run, rf.variant, true, rf.steps_before_minimisation + tries);
                results.push(serde_json::json!({"index": idx, "replay": out}));
            }
        }
    }
    emit(&serde_json::json!({"t": "many", "results": results}));
}

fn run_main(args: &WorkerArgs, ctxs: &mut [ProgCtx]) {
    let t0 = std::time::Instant::now();
    let pl = plan(&args.property, &args.tier);
    let property = args.property.clone();
    let mut stats = Stats::default();
    let mut distinct: FxSet<u64> = Default::default();
    let mut signatures: FxSet<u64> = Default::default();
    let mut fork_sigs: FxSet<u64> = Default::default();
    let mut by_index: BTreeMap<usize, usize> = BTreeMap::new();
    for (i, c) in ctxs.iter().enumerate() {
        by_index.insert(c.index, i);
    }
    // watchdog: a generated lexer may spin without reading input; then only the clock helps
    let beat = Arc::new((AtomicU64::new(u64::MAX), AtomicU64::new(0), AtomicU64::new(0)));
    {
        let beat = beat.clone();
        let hang_secs = args.hang_secs.max(1);
        let t0 = t0;
        std::thread::spawn(move || loop {
            std::thread::sleep(std::time::Duration::from_millis(250));
            let b = beat.0.load(Ordering::SeqCst);
            if b == u64::MAX {
                continue;
            }
            let started = beat.2.load(Ordering::SeqCst);
            let now = t0.elapsed().as_millis() as u64;
            if now.saturating_sub(started) > hang_secs * 1000 {
                let v = beat.1.load(Ordering::SeqCst);
                emit(&serde_json::json!({"t": "hang", "base": b, "variant": v}));
                std::process::exit(3);
            }
        });
    }
    let describe = if args.mode == "describe" { args.describe } else { None };
    // the last runs executed on each program, for violations that depend on earlier runs
    const PRELUDE_LEN: usize = 24;
    let mut recent: BTreeMap<usize, std::collections::VecDeque<(RunSpec, String)>> = BTreeMap::new();
    let mut reported = 0usize;
    let mut b = args.start_base;
    while b < args.base_runs {
        let p = (b % args.total_programs as u64) as usize;
        let ci = match by_index.get(&p) {
            Some(ci) => *ci,
            None => {
                b += 1;
                continue;
            }
        };
        if let Some((db, _, _)) = describe {
            if db != b {
                b += 1;
                continue;
            }
        }
        let pc = &mut ctxs[ci];
        let units = units_for_base(args, pc, &pl, b);
        stats.base_runs += 1;
        stats.last_base = b;
        stats.programs_exercised.insert(p);
        for (vi, unit) in units.iter().enumerate() {
            if let Some((_, dv, _)) = describe {
                if dv as usize != vi {
                    continue;
                }
                // describe: write the run out without executing it (it hangs)
                let d = Divergence {
                    call: 0,
                    labels: vec![Label::Hang],
                    expected: "next() returns".into(),
                    got: "no return within the watchdog bound".into(),
                    note: format!("worker killed after {} s inside this run", args.hang_secs),
                };
                let rf = make_replay(args, pc, "C09", unit, &d, "single", &Observed {
                    ops: vec![], calls: vec![], forks: vec![], total_reads: 0, max_pos: 0, unfused_fired: false, overrun: false,
                }, b, vi as u32, false, 0);
                emit(&serde_json::json!({"t": "described", "replay": rf}));
                return;
            }
            beat.1.store(vi as u64, Ordering::SeqCst);
            beat.2.store(t0.elapsed().as_millis() as u64, Ordering::SeqCst);
            beat.0.store(b, Ordering::SeqCst);
            let ev = evaluate(pc, &property, unit);
            beat.0.store(u64::MAX, Ordering::SeqCst);
            stats.evaluations += ev.runs;
            stats.sim_steps += ev.steps;
            stats.history_digest = stats.history_digest.wrapping_add(mix(mix(b, vi as u64), ev.digest));
            stats.max_step_ratio_milli = stats.max_step_ratio_milli.max(ev.step_ratio_milli);
            *stats.ctor_runs.entry(format!("{:?}", unit.spec.ctor)).or_insert(0) += 1;
            if let Some(fs) = ev.fork_sig {
                if fork_sigs.insert(fs) {
                    stats.fork_signatures += 1;
                }
            }
            for f in &unit.spec.faults {
                *stats.faults_planned.entry(f.kind().to_string()).or_insert(0) += 1;
            }
            if let Some(v) = &ev.verdict {
                let mut all_fired = true;
                for (k, fired) in &v.faults_fired {
                    if *fired {
                        *stats.faults_fired.entry(k.clone()).or_insert(0) += 1;
                    } else {
                        all_fired = false;
                    }
                }
                stats.probes.merge(&v.probes);
                stats.transitions.extend(v.transitions.iter().copied());
                if signatures.insert(v.signature) {
                    stats.distinct_signatures += 1;
                }
                if v.observations >= 2 && all_fired {
                    stats.nontrivial += 1;
                    let h = hash_of(&(
                        p,
                        &unit.spec.text,
                        unit.spec.unfused_at,
                        &unit.spec.overrides,
                        &unit.spec.ops,
                        unit.spec.fork_sched,
                        unit.spec.ctor,
                        unit.spec.decide_seed,
                        unit.spec.polls,
                    ));
                    if distinct.insert(h) {
                        stats.distinct_nontrivial += 1;
                    }
                    if stats.samples.len() < 3 && (b / args.total_programs as u64) % 7 == 3 {
                        stats.samples.push(serde_json::json!({
                            "program": crate::render::definition(&pc.prog),
                            "input": unit.spec.text.iter().collect::<String>(),
                            "faults": unit.spec.faults,
                            "ctor": unit.spec.ctor,
                            "profile": unit.spec.profile,
                            "mode": unit.mode,
                        }));
                    }
                }
            }
            for o in &ev.other {
                *stats.other_divergences.entry(o.clone()).or_insert(0) += 1;
            }
            if let Some((d, mode, obs)) = ev.own {
                stats.violations += 1;
                if reported < args.max_violations {
                    reported += 1;
                    let class = d.class_for(&property);
                    let (munit, tries) = minimise(pc, &property, unit, &class, &obs);
                    let mut rf = match reproduces(pc, &property, &munit, &class) {
                        Some((d2, m2, o2)) => make_replay(args, pc, &property, &munit, &d2, &m2, &o2, b, vi as u32, true, tries),
                        None => make_replay(args, pc, &property, unit, &d, &mode, &obs, b, vi as u32, false, tries),
                    };
                    rf.prelude = recent.get(&p).map(|q| q.iter().cloned().collect()).unwrap_or_default();
                    if rf.minimised {
                        rf.original_spec = Some(unit.spec.clone());
                    }
                    emit(&serde_json::json!({"t": "violation", "replay": rf}));
                }
            }
            let q = recent.entry(p).or_default();
            if q.len() == PRELUDE_LEN {
                q.pop_front();
            }
            q.push_back((unit.spec.clone(), unit.mode.to_string()));
        }
        b += 1;
    }
    stats.wall_ms = t0.elapsed().as_millis() as u64;
    emit(&serde_json::json!({"t": "stats", "stats": stats}));
}

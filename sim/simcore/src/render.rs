//! IR -> `lexer!{}` text. Fully parenthesised: nothing here relies on operator precedence.

use crate::ir::*;
use std::fmt::Write;

fn ch(c: char) -> String {
    format!("{:?}", c)
}

fn class(c: &Class, in_ctx: bool, out: &mut String) {
    match c {
        Class::Ch(x) => {
            if in_ctx {
                // A literal character inside a right context that is not its last symbol makes the
                // pinned macro emit code that does not compile (C04/C12): write a one-element range.
                let _ = write!(out, "[{}-{}]", ch(*x), ch(*x));
            } else {
                out.push_str(&ch(*x));
            }
        }
        Class::Set(items) => {
            out.push('[');
            for (i, it) in items.iter().enumerate() {
                if i > 0 {
                    out.push(' ');
                }
                match it {
                    SetItem::Ch(x) => {
                        if in_ctx {
                            let _ = write!(out, "{}-{}", ch(*x), ch(*x));
                        } else {
                            out.push_str(&ch(*x));
                        }
                    }
                    SetItem::Range(a, b) => {
                        let _ = write!(out, "{}-{}", ch(*a), ch(*b));
                    }
                }
            }
            out.push(']');
        }
        Class::Any => out.push('_'),
        Class::Builtin(b) => {
            let _ = write!(out, "$${}", b.name());
        }
        Class::Union(a, b) => {
            out.push('(');
            class(a, in_ctx, out);
            out.push_str(" | ");
            class(b, in_ctx, out);
            out.push(')');
        }
        Class::Diff(a, b) => {
            out.push('(');
            class(a, in_ctx, out);
            out.push_str(" # ");
            class(b, in_ctx, out);
            out.push(')');
        }
    }
}

/// `last`: this sub-regex is the last symbol of a right context (a literal character is safe there).
fn regex(r: &Re, in_ctx: bool, last: bool, out: &mut String) {
    match r {
        Re::Class(Class::Ch(x)) if in_ctx && last => out.push_str(&ch(*x)),
        Re::Class(c) => class(c, in_ctx, out),
        Re::Str(s) => {
            if in_ctx {
                out.push('(');
                for (i, c) in s.iter().enumerate() {
                    if i > 0 {
                        out.push(' ');
                    }
                    let _ = write!(out, "[{}-{}]", ch(*c), ch(*c));
                }
                out.push(')');
            } else {
                let t: String = s.iter().collect();
                let _ = write!(out, "{:?}", t);
            }
        }
        Re::Eof => out.push('$'),
        Re::Star(a) => {
            out.push('(');
            regex(a, in_ctx, false, out);
            out.push_str(")*");
        }
        Re::Plus(a) => {
            out.push('(');
            regex(a, in_ctx, false, out);
            out.push_str(")+");
        }
        Re::Opt(a) => {
            out.push('(');
            regex(a, in_ctx, false, out);
            out.push_str(")?");
        }
        Re::Cat(a, b) => {
            out.push('(');
            regex(a, in_ctx, false, out);
            out.push(' ');
            regex(b, in_ctx, last, out);
            out.push(')');
        }
        Re::Alt(a, b) => {
            out.push('(');
            regex(a, in_ctx, false, out);
            out.push_str(" | ");
            regex(b, in_ctx, false, out);
            out.push(')');
        }
    }
}

pub fn regex_text(r: &Re) -> String {
    let mut s = String::new();
    regex(r, false, false, &mut s);
    s
}

pub fn ctx_text(r: &Re, rule_id: u32) -> String {
    let mut s = String::new();
    regex(r, true, rule_id % 2 == 0, &mut s);
    s
}

fn rule(r: &Rule, named: bool, out: &mut String, indent: &str) {
    out.push_str(indent);
    out.push_str(&regex_text(&r.re));
    if let Some(c) = &r.ctx {
        out.push_str(" > ");
        out.push_str(&ctx_text(c, r.id));
    }
    let sw = if named { "sw" } else { "noswitch" };
    match r.kind {
        Kind::Skip => out.push_str(",\n"),
        Kind::Simple => {
            let _ = writeln!(out, " = Tok::simple({}),", r.id);
        }
        Kind::Infallible => {
            let _ = writeln!(out, " => |lexer| simcore::act!(lexer, {}, {}, infallible),", r.id, sw);
        }
        Kind::Fallible => {
            let _ = writeln!(out, " =? |lexer| simcore::act!(lexer, {}, {}, fallible),", r.id, sw);
        }
    }
}

/// The bare definition (what goes inside `lexer!{ }`), as a user would write it.
pub fn definition(p: &Program) -> String {
    let mut out = String::new();
    out.push_str("    #[derive(Clone)]\n    Lexer(Env) -> Tok;\n");
    if p.has_fallible() {
        out.push_str("    type Error = SimErr;\n");
    }
    if p.unnamed {
        for r in &p.sets[0].rules {
            rule(r, false, &mut out, "    ");
        }
    } else {
        for s in &p.sets {
            let _ = writeln!(out, "    rule {} {{", s.name);
            for r in &s.rules {
                rule(r, true, &mut out, "        ");
            }
            out.push_str("    }\n");
        }
    }
    out
}

/// A module containing the lexer, the rule-set index mapping and the glue.
pub fn module(p: &Program, mod_name: &str) -> String {
    let mut out = String::new();
    let _ = writeln!(out, "pub mod {} {{", mod_name);
    out.push_str("    #![allow(dead_code, unused_imports, unused_variables, unreachable_patterns, unreachable_code, clippy::all)]\n");
    out.push_str("    use simcore::{Env, SimErr, Tok};\n");
    out.push_str("    lexgen::lexer! {\n");
    for line in definition(p).lines() {
        out.push_str("    ");
        out.push_str(line);
        out.push('\n');
    }
    out.push_str("    }\n");
    if !p.unnamed {
        out.push_str("    fn sw(k: u8) -> LexerRule {\n        match k {\n");
        for (i, s) in p.sets.iter().enumerate() {
            if i + 1 == p.sets.len() {
                let _ = writeln!(out, "            _ => LexerRule::{},", s.name);
            } else {
                let _ = writeln!(out, "            {} => LexerRule::{},", i, s.name);
            }
        }
        out.push_str("        }\n    }\n");
    }
    out.push_str("    simcore::glue!(Lexer);\n");
    out.push_str("}\n");
    out
}

//! Oracles: lockstep comparison with REF, history invariants that need no reference, and the
//! classification of the first divergence of a run into the clauses of the properties.

use crate::env::{next_canary, Event, RunCfg};
use crate::exec::{CallRec, Fault, Observed, Op, RunSpec};
use crate::ir::{Kind, Program};
use crate::loc::{LocTable, SLoc};
use crate::refmodel::{RefInput, RefOutcome, RefProg, RefState, ScanNote};
use crate::rep::{Ctor, Item};
use serde::{Deserialize, Serialize};
use std::collections::BTreeMap;

#[derive(Clone, Copy, Debug, PartialEq, Eq, Hash, PartialOrd, Ord, Serialize, Deserialize)]
pub enum Label {
    // C03
    RuleSetLeak,
    SwitchEntry,
    // C05
    EofProtocol,
    // C06
    Loc,
    // C07
    ErrorDecision,
    ErrorLocation,
    ErrorPayload,
    // C08
    RecoveryPosition,
    RecoveryRuleSet,
    RecoveryUserState,
    RecoveryStream,
    // C09
    Panic,
    NoProgress,
    Hang,
    Count,
    // C10
    ActionSequence,
    Span,
    Peek,
    Sugar,
    UserState,
    // C14
    ConstructorDivergence,
    // C15
    ForkDivergence,
    Nondeterminism,
}

impl Label {
    pub fn property(self) -> &'static str {
        use Label::*;
        match self {
            RuleSetLeak | SwitchEntry => "C03",
            EofProtocol => "C05",
            Loc => "C06",
            ErrorDecision | ErrorLocation | ErrorPayload => "C07",
            RecoveryPosition | RecoveryRuleSet | RecoveryUserState | RecoveryStream => "C08",
            Panic | NoProgress | Hang | Count => "C09",
            ActionSequence | Span | Peek | Sugar | UserState => "C10",
            ConstructorDivergence => "C14",
            ForkDivergence | Nondeterminism => "C15",
        }
    }
}

#[derive(Clone, Debug, PartialEq, Eq, Serialize, Deserialize)]
pub struct Divergence {
    /// index into `Observed::calls`
    pub call: usize,
    pub labels: Vec<Label>,
    pub expected: String,
    pub got: String,
    pub note: String,
}

impl Divergence {
    pub fn has_property(&self, prop: &str) -> bool {
        self.labels.iter().any(|l| l.property() == prop)
    }
    /// Stable identity of the violation class for minimisation and replay: the labels owned by
    /// `prop`.
    pub fn class_for(&self, prop: &str) -> Vec<Label> {
        let mut v: Vec<Label> =
            self.labels.iter().copied().filter(|l| l.property() == prop).collect();
        v.sort();
        v.dedup();
        v
    }
}

/// Reach probes: "this rare condition was hit", counted per run.
#[derive(Clone, Debug, Default, PartialEq, Eq, Serialize, Deserialize)]
pub struct Probes {
    pub counts: BTreeMap<String, u64>,
}

impl Probes {
    pub fn hit(&mut self, name: &str) {
        *self.counts.entry(name.to_string()).or_insert(0) += 1;
    }
    pub fn add(&mut self, name: &str, n: u64) {
        *self.counts.entry(name.to_string()).or_insert(0) += n;
    }
    pub fn merge(&mut self, other: &Probes) {
        for (k, v) in &other.counts {
            *self.counts.entry(k.clone()).or_insert(0) += v;
        }
    }
}

#[derive(Clone, Debug)]
pub struct Verdict {
    pub divergence: Option<Divergence>,
    pub probes: Probes,
    /// events + non-End items observed
    pub observations: u64,
    /// every planned fault actually struck the run
    pub faults_fired: Vec<(String, bool)>,
    /// sequence of event kinds (run signature for the "distinct interleavings" measure)
    pub signature: u64,
    /// (rule-set class, accumulated?, last outcome) x event kind pairs seen
    pub transitions: Vec<u32>,
}

fn loc_ok(l: SLoc, locs: &LocTable) -> Result<usize, String> {
    match locs.char_of_byte(l.byte) {
        None => Err(format!("byte index {} is not on a character boundary", l.byte)),
        Some(ci) => {
            let want = locs.loc(ci);
            if want != l {
                Err(format!("location {:?} but scanning from the start gives {:?}", l, want))
            } else {
                Ok(ci)
            }
        }
    }
}

fn peek_matches(exp: &Event, got: &Event, spec: &RunSpec, locs: &LocTable) -> bool {
    if exp.peek == got.peek {
        return true;
    }
    // R2: after an injected `None`, std's Peekable re-polls the (non-fused) source.
    if let Some(p) = spec.unfused_at {
        if exp.peek.is_none() && locs.char_of_byte(got.end.byte) == Some(p) {
            return got.peek == spec.text.get(p).copied();
        }
    }
    false
}

fn event_matches(exp: &Event, got: &Event, spec: &RunSpec, locs: &LocTable) -> bool {
    exp.rule == got.rule
        && exp.n == got.n
        && exp.start == got.start
        && exp.end == got.end
        && peek_matches(exp, got, spec, locs)
        && (got.text.is_none() || exp.text.is_none() || exp.text == got.text)
        && exp.dec == got.dec
        && exp.post_reset == got.post_reset
}

fn outcome_matches(exp: &RefOutcome, got: &CallRec, spec: &RunSpec, locs: &LocTable) -> bool {
    exp.item == got.item
        && exp.events.len() == got.events.len()
        && exp.events.iter().zip(got.events.iter()).all(|(e, g)| event_matches(e, g, spec, locs))
}

fn item_brief(i: &Item) -> String {
    match i {
        Item::End => "None".into(),
        Item::Tok { start, tok, end } => {
            format!("Ok(rule {} #{} @{}..{})", tok.rule, tok.n, start.byte, end.byte)
        }
        Item::Invalid { at } => format!("Err(InvalidToken @{} l{} c{})", at.byte, at.line, at.col),
        Item::Custom { at, err } => {
            format!("Err(Custom(rule {} #{}) @{} l{} c{})", err.rule, err.n, at.byte, at.line, at.col)
        }
        Item::Panic(m) => format!("PANIC({})", m),
        Item::NoProgress => "NO-PROGRESS".into(),
    }
}

fn event_brief(e: &Event) -> String {
    format!(
        "action(rule {} #{} @{}..{} l{}c{}..l{}c{} peek {:?} text {:?} -> {:?}{}{})",
        e.rule,
        e.n,
        e.start.byte,
        e.end.byte,
        e.start.line,
        e.start.col,
        e.end.line,
        e.end.col,
        e.peek,
        e.text,
        e.dec.kind,
        if e.dec.reset { "+reset" } else { "" },
        match e.dec.switch {
            Some(k) => format!("+switch({})", k),
            None => String::new(),
        }
    )
}

pub fn outcome_brief(events: &[Event], item: &Item) -> String {
    let mut s: Vec<String> = events.iter().map(event_brief).collect();
    s.push(item_brief(item));
    s.join("; ")
}

struct Lineage {
    refs: Vec<RefState>,
    /// REF-free view of the active rule set, from the replica's own history
    active: usize,
    /// an InvalidToken happened and no action has switched since
    since_failure: bool,
    /// the previous agreed element entered a rule set (switch or failure reset)
    fresh_entry: bool,
    ended: bool,
    last_item_end: usize,
    items: u64,
    events: u64,
    last_outcome: u8,
}

impl Lineage {
    fn fork(&self) -> Lineage {
        Lineage {
            refs: self.refs.clone(),
            active: self.active,
            since_failure: self.since_failure,
            fresh_entry: self.fresh_entry,
            ended: self.ended,
            last_item_end: self.last_item_end,
            items: self.items,
            events: self.events,
            last_outcome: self.last_outcome,
        }
    }
}

fn push(labels: &mut Vec<Label>, l: Label) {
    if !labels.contains(&l) {
        labels.push(l);
    }
}

/// Classifies the first differing element of (events..., item) between REF's primary expectation
/// and the observation. See the table in DESIGN.md §6.1.
fn classify(
    exp: &RefOutcome,
    got: &CallRec,
    spec: &RunSpec,
    locs: &LocTable,
    prog: &Program,
    labels: &mut Vec<Label>,
) -> String {
    let eof_involved = exp.notes.iter().any(|n| match n {
        ScanNote::Fired { eof, rewound_from, .. } => {
            *eof || *rewound_from == Some(spec.visible_end() + 1)
        }
        ScanNote::Failed { eof_read, .. } => *eof_read,
        ScanNote::Boundary { .. } => true,
    });
    let n_common = exp.events.len().min(got.events.len());
    for j in 0..n_common {
        let (e, g) = (&exp.events[j], &got.events[j]);
        if event_matches(e, g, spec, locs) {
            continue;
        }
        if e.rule != g.rule || e.n != g.n || e.end.byte != g.end.byte {
            push(labels, Label::ActionSequence);
            if eof_involved {
                push(labels, Label::EofProtocol);
            }
            return format!("action #{} of the call: different rule or lexeme end", j + 1);
        }
        if e.start.byte != g.start.byte {
            push(labels, Label::Span);
            push(labels, Label::Loc);
            return format!("action #{} of the call: match starts at a different byte", j + 1);
        }
        if e.start != g.start || e.end != g.end {
            push(labels, Label::Loc);
            return format!("action #{} of the call: same bytes, different line/column", j + 1);
        }
        if !peek_matches(e, g, spec, locs) {
            push(labels, Label::Peek);
            return format!("action #{} of the call: peek() differs", j + 1);
        }
        if g.text.is_some() && e.text.is_some() && e.text != g.text {
            push(labels, Label::Span);
            push(labels, Label::Loc);
            return format!("action #{} of the call: match_() text differs", j + 1);
        }
        if e.post_reset != g.post_reset {
            push(labels, Label::Span);
            return format!("action #{} of the call: match_loc() after reset_match() differs", j + 1);
        }
        push(labels, Label::UserState);
        return format!("action #{} of the call: decision differs (user state corrupted?)", j + 1);
    }
    if exp.events.len() != got.events.len() {
        // one side fired an action where the other already produced its item
        let (item, lexer_has_item) = if got.events.len() < exp.events.len() {
            (&got.item, true)
        } else {
            (&exp.item, false)
        };
        match item {
            Item::Invalid { .. } => push(labels, Label::ErrorDecision),
            Item::End => {
                push(labels, Label::EofProtocol);
                push(labels, Label::ActionSequence);
            }
            Item::Panic(_) => push(labels, Label::Panic),
            Item::NoProgress => push(labels, Label::NoProgress),
            _ => push(labels, Label::ActionSequence),
        }
        if !lexer_has_item {
            // the lexer ran an action the reference never runs: by C10's own words an action run
            // for a candidate that was abandoned (or run a second time for one match)
            push(labels, Label::ActionSequence);
        }
        if eof_involved {
            push(labels, Label::EofProtocol);
        }
        return if lexer_has_item {
            "the lexer produced its item where the reference runs another action".into()
        } else {
            "the lexer ran an action where the reference already produces its item".into()
        };
    }
    // same events; items differ
    let simple_rule = |r: u32| prog.rule(r).map(|(_, x)| x.kind == Kind::Simple).unwrap_or(false);
    match (&exp.item, &got.item) {
        (_, Item::Panic(_)) => push(labels, Label::Panic),
        (_, Item::NoProgress) => push(labels, Label::NoProgress),
        (Item::Invalid { at: a }, Item::Invalid { at: b }) => {
            push(labels, Label::ErrorLocation);
            if a.byte == b.byte {
                push(labels, Label::Loc);
            }
        }
        (Item::Invalid { .. }, _) | (_, Item::Invalid { .. }) => {
            push(labels, Label::ErrorDecision);
            if exp.item == Item::End || got.item == Item::End || eof_involved {
                push(labels, Label::EofProtocol);
            }
        }
        (Item::End, _) | (_, Item::End) => {
            push(labels, Label::EofProtocol);
            push(labels, Label::ActionSequence);
        }
        (Item::Custom { at: a, err: x }, Item::Custom { at: b, err: y }) => {
            if x != y {
                push(labels, Label::ErrorPayload);
            }
            if a != b {
                push(labels, Label::ErrorLocation);
                if a.byte == b.byte {
                    push(labels, Label::Loc);
                }
            }
        }
        (Item::Custom { .. }, Item::Tok { .. }) | (Item::Tok { .. }, Item::Custom { .. }) => {
            push(labels, Label::ErrorPayload);
            push(labels, Label::Sugar);
        }
        (Item::Tok { start: s1, tok: t1, end: e1 }, Item::Tok { start: s2, tok: t2, end: e2 }) => {
            if t1 != t2 || e1.byte != e2.byte {
                push(labels, Label::ActionSequence);
                if simple_rule(t1.rule) || simple_rule(t2.rule) {
                    push(labels, Label::Sugar);
                }
                if eof_involved {
                    push(labels, Label::EofProtocol);
                }
            } else if s1.byte != s2.byte {
                push(labels, Label::Span);
                push(labels, Label::Loc);
                if simple_rule(t1.rule) {
                    push(labels, Label::Sugar);
                }
            } else {
                push(labels, Label::Loc);
            }
        }
        _ => push(labels, Label::ActionSequence),
    }
    "the item of the call differs".into()
}

pub struct Checker<'a> {
    pub prog: &'a Program,
    pub refprog: &'a mut RefProg,
}

impl<'a> Checker<'a> {
    /// REF lockstep + reference-free history invariants over one executed run.
    pub fn check(&mut self, spec: &RunSpec, obs: &Observed) -> Verdict {
        let prog = self.prog;
        let locs = LocTable::new(&spec.text);
        let visible = spec.visible_end();
        let has_text = spec.ctor.has_text();
        let inp = RefInput { text: &spec.text, end: visible, locs: &locs, with_text: has_text };
        let cfg: RunCfg = spec.run_cfg(prog, has_text);
        let total_bytes = locs.loc(visible).byte;

        let mut probes = Probes::default();
        let mut lineages: Vec<Lineage> = vec![Lineage {
            refs: vec![RefState::initial()],
            active: 0,
            since_failure: false,
            fresh_entry: true,
            ended: false,
            last_item_end: 0,
            items: 0,
            events: 0,
            last_outcome: 0,
        }];
        let mut cursor = 0usize;
        let mut divergence: Option<Divergence> = None;
        let mut observations = 0u64;
        let mut sig: u64 = 0x9e37;
        let mut transitions: Vec<u32> = vec![];
        let mut examined_upto = 0usize;
        let mut eof_reached = false;
        let mut err_events: Vec<u32> = vec![];

        'ops: for op in &obs.ops {
            match *op {
                Op::Fork(r) => {
                    let l = lineages[r as usize].fork();
                    lineages.push(l);
                    probes.hit("fork");
                    if lineages[r as usize].ended {
                        probes.hit("fork_after_end");
                    }
                    if lineages[r as usize].since_failure {
                        probes.hit("fork_after_failure");
                    }
                    if lineages[r as usize].active != 0 {
                        probes.hit("fork_in_non_init_set");
                    }
                }
                Op::Drop(_) => {
                    probes.hit("drop");
                }
                Op::Stranger => {
                    probes.hit("stranger_step");
                }
                Op::Next(r) => {
                    let got = &obs.calls[cursor];
                    let call_idx = cursor;
                    cursor += 1;
                    let lin = &mut lineages[r as usize];
                    let since_failure_before = lin.since_failure;
                    let fresh_before = lin.fresh_entry;
                    let ended_before = lin.ended;
                    let active_before = lin.active;
                    let mut labels: Vec<Label> = vec![];
                    let mut notes: Vec<String> = vec![];
                    observations += got.events.len() as u64;
                    if got.item != Item::End {
                        observations += 1;
                    }

                    // ---------- reference-free invariants ----------
                    match &got.item {
                        Item::Panic(m) => {
                            push(&mut labels, Label::Panic);
                            if m.starts_with("user state lost") {
                                push(&mut labels, Label::UserState);
                            }
                            notes.push(format!("next() unwound: {}", m));
                        }
                        Item::NoProgress => {
                            push(&mut labels, Label::NoProgress);
                            notes.push(format!(
                                "step budget {} exceeded inside one next() call",
                                spec.step_budget()
                            ));
                        }
                        _ => {}
                    }
                    // user state touched only by actions
                    {
                        let mut canary = got.env_before.1;
                        let mut n = got.env_before.0;
                        for e in &got.events {
                            n += 1;
                            canary = next_canary(canary, e.rule, n);
                        }
                        let want = (n, canary, got.env_before.2);
                        if !matches!(got.item, Item::Panic(_) | Item::NoProgress)
                            && got.env_after != want
                        {
                            push(&mut labels, Label::UserState);
                            if matches!(got.item, Item::Invalid { .. }) {
                                push(&mut labels, Label::RecoveryUserState);
                            }
                            notes.push(format!(
                                "user state fingerprint {:?} after the call, expected {:?}",
                                got.env_after, want
                            ));
                        }
                    }
                    // latch
                    if ended_before && (got.item != Item::End || !got.events.is_empty()) {
                        push(&mut labels, Label::EofProtocol);
                        notes.push("activity after next() had returned None".into());
                    }
                    // locations, spans, rule-set isolation from the replica's own history
                    for e in &got.events {
                        let mut cs = None;
                        let mut ce = None;
                        match loc_ok(e.start, &locs) {
                            Ok(c) => cs = Some(c),
                            Err(m) => {
                                push(&mut labels, Label::Loc);
                                notes.push(format!("action of rule {}: start {}", e.rule, m));
                            }
                        }
                        match loc_ok(e.end, &locs) {
                            Ok(c) => ce = Some(c),
                            Err(m) => {
                                push(&mut labels, Label::Loc);
                                notes.push(format!("action of rule {}: end {}", e.rule, m));
                            }
                        }
                        if let (Some(cs), Some(ce)) = (cs, ce) {
                            if cs > ce {
                                push(&mut labels, Label::Loc);
                                notes.push(format!("action of rule {}: start > end", e.rule));
                            } else if let Some(t) = &e.text {
                                let want: String = spec.text[cs..ce].iter().collect();
                                if *t != want {
                                    push(&mut labels, Label::Loc);
                                    push(&mut labels, Label::Span);
                                    notes.push(format!(
                                        "match_() = {:?} but input[start..end] = {:?}",
                                        t, want
                                    ));
                                }
                            }
                        }
                        if let Some((a, b)) = e.post_reset {
                            if a != b || a != e.end {
                                push(&mut labels, Label::Span);
                                notes.push("match not empty right after reset_match()".into());
                            }
                        }
                        match prog.rule(e.rule) {
                            None => {
                                push(&mut labels, Label::ActionSequence);
                                notes.push(format!("unknown rule id {}", e.rule));
                            }
                            Some((set, _)) => {
                                if set != lin.active {
                                    push(&mut labels, Label::RuleSetLeak);
                                    if lin.since_failure {
                                        push(&mut labels, Label::RecoveryRuleSet);
                                    }
                                    notes.push(format!(
                                        "rule {} of rule set {} fired while the history says rule set {} is active",
                                        e.rule, prog.sets[set].name, prog.sets[lin.active].name
                                    ));
                                }
                            }
                        }
                        if let Some(k) = e.dec.switch {
                            lin.active = k as usize;
                            lin.since_failure = false;
                        }
                        if e.dec.kind == crate::env::DKind::Err {
                            err_events.push(e.n);
                        }
                    }
                    match &got.item {
                        Item::Tok { start, tok, end } => {
                            let cs = loc_ok(*start, &locs);
                            let ce = loc_ok(*end, &locs);
                            for (what, r) in [("start", &cs), ("end", &ce)] {
                                if let Err(m) = r {
                                    push(&mut labels, Label::Loc);
                                    notes.push(format!("token {}: {}", what, m));
                                }
                            }
                            if let (Ok(cs), Ok(ce)) = (&cs, &ce) {
                                if cs > ce {
                                    push(&mut labels, Label::Loc);
                                    notes.push("token start > end".into());
                                }
                                if *cs < lin.last_item_end {
                                    // order/overlap is C06's clause; an item that re-covers input
                                    // already accounted for is also C09's (no progress: the lexer
                                    // went back over reported text)
                                    push(&mut labels, Label::Loc);
                                    push(&mut labels, Label::Count);
                                    notes.push("token overlaps the previous lexeme".into());
                                }
                                lin.last_item_end = *ce;
                            }
                            if tok.n == 0 {
                                // `re = tok` sugar: no action event, the token names the rule
                                match prog.rule(tok.rule) {
                                    Some((set, r)) if r.kind == Kind::Simple => {
                                        if set != lin.active {
                                            push(&mut labels, Label::RuleSetLeak);
                                            if lin.since_failure {
                                                push(&mut labels, Label::RecoveryRuleSet);
                                            }
                                            notes.push(format!(
                                                "token of rule {} (rule set {}) while rule set {} is active",
                                                tok.rule, prog.sets[set].name, prog.sets[lin.active].name
                                            ));
                                        }
                                    }
                                    _ => {
                                        push(&mut labels, Label::Sugar);
                                        notes.push(format!("token payload names rule {} which is not a `= tok` rule", tok.rule));
                                    }
                                }
                            }
                        }
                        Item::Invalid { at } | Item::Custom { at, .. } => {
                            if let Err(m) = loc_ok(*at, &locs) {
                                push(&mut labels, Label::Loc);
                                push(&mut labels, Label::ErrorLocation);
                                notes.push(format!("error location: {}", m));
                            }
                            if matches!(got.item, Item::Invalid { .. }) {
                                lin.active = 0;
                                lin.since_failure = true;
                            }
                        }
                        _ => {}
                    }
                    if got.item == Item::End {
                        lin.ended = true;
                    } else {
                        lin.items += 1;
                    }
                    lin.events += got.events.len() as u64;
                    if lin.items > visible as u64 + 1 || lin.events > visible as u64 + 1 {
                        push(&mut labels, Label::Count);
                        notes.push(format!(
                            "{} items and {} actions over {} characters",
                            lin.items, lin.events, visible
                        ));
                    }

                    // ---------- lockstep with REF ----------
                    let mut alts: Vec<(RefOutcome, RefState)> = vec![];
                    for s in &lin.refs {
                        alts.extend(self.refprog.step(s, &inp, &cfg));
                    }
                    let matching: Vec<&(RefOutcome, RefState)> =
                        alts.iter().filter(|(o, _)| outcome_matches(o, got, spec, &locs)).collect();
                    let mut expected = String::new();
                    if matching.is_empty() {
                        let exp = &alts[0].0;
                        expected = outcome_brief(&exp.events, &exp.item);
                        let why = classify(exp, got, spec, &locs, prog, &mut labels);
                        notes.push(why);
                        // A divergence that is purely about line/column arithmetic or about peek()
                        // says nothing about which rule set is active or where recovery resumed:
                        // it is owned by C06 / C10 / C07 only and not attributed to C03 / C08.
                        let cosmetic = (labels.contains(&Label::Loc) || labels.contains(&Label::Peek))
                            && labels
                                .iter()
                                .all(|l| matches!(l, Label::Loc | Label::Peek | Label::ErrorLocation));
                        if since_failure_before && !cosmetic {
                            push(&mut labels, Label::RecoveryStream);
                            // where the lexer resumed
                            let first_start = got
                                .events
                                .first()
                                .map(|e| e.start.byte)
                                .or(match &got.item {
                                    Item::Tok { start, .. } => Some(start.byte),
                                    Item::Invalid { at } | Item::Custom { at, .. } => Some(at.byte),
                                    _ => None,
                                });
                            let exp_start = exp
                                .events
                                .first()
                                .map(|e| e.start.byte)
                                .or(match &exp.item {
                                    Item::Tok { start, .. } => Some(start.byte),
                                    Item::Invalid { at } | Item::Custom { at, .. } => Some(at.byte),
                                    _ => None,
                                });
                            if first_start != exp_start {
                                push(&mut labels, Label::RecoveryPosition);
                            }
                        }
                        // C03 owns a divergence right after a rule-set entry only if it is about
                        // WHICH rule fired / whether anything matched (not spans, locations, payloads)
                        let which_rule = labels.iter().any(|l| {
                            matches!(
                                l,
                                Label::ActionSequence | Label::ErrorDecision | Label::EofProtocol | Label::Panic | Label::NoProgress
                            )
                        });
                        if fresh_before && which_rule {
                            push(&mut labels, Label::SwitchEntry);
                        }
                    } else {
                        // probes and bookkeeping from the agreed outcome
                        let (o, _) = matching[0];
                        for n in &o.notes {
                            match n {
                                ScanNote::Fired { set, to, eof, rewound_from, lookahead_to, from, rule } => {
                                    examined_upto = examined_upto
                                        .max(*to)
                                        .max(rewound_from.unwrap_or(0).min(visible))
                                        .max(*lookahead_to);
                                    if *eof {
                                        eof_reached = true;
                                        probes.hit(if *set == 0 { "eof_rule_in_init" } else { "eof_rule_in_other_set" });
                                        if lin.events > 0 && lin.last_outcome == 1 {
                                            probes.hit("eof_after_continue");
                                        }
                                    }
                                    if let Some(rf) = rewound_from {
                                        probes.hit("rewind");
                                        if *rf == visible + 1 {
                                            eof_reached = true;
                                            probes.hit("rewind_from_eof");
                                            if *to == visible {
                                                probes.hit("rewind_candidate_ends_at_eof");
                                            }
                                        }
                                        let span = &spec.text[*to..(*rf).min(visible)];
                                        if span.contains(&'\n') {
                                            probes.hit("rewind_across_newline");
                                        }
                                        if span.iter().any(|c| c.len_utf8() > 1) {
                                            probes.hit("rewind_across_multibyte");
                                        }
                                    }
                                    if *lookahead_to > *to {
                                        probes.hit("context_lookahead");
                                    }
                                    if fresh_before && *set != 0 {
                                        probes.hit("match_in_non_init_set_after_entry");
                                    }
                                    let _ = (from, rule);
                                }
                                ScanNote::Failed { set, from, to, eof_read, offender, ctx_starved } => {
                                    examined_upto = examined_upto.max(*to);
                                    if *eof_read {
                                        eof_reached = true;
                                        probes.hit("failure_at_eof_inside_lexeme");
                                    }
                                    probes.hit(if *set == 0 { "failure_in_init" } else { "failure_in_other_set" });
                                    if *to - *from <= 1 && *offender {
                                        probes.hit("failure_at_first_char");
                                    } else {
                                        probes.hit("failure_mid_lexeme");
                                    }
                                    if *ctx_starved {
                                        probes.hit("failure_context_starved_R1");
                                    }
                                    if since_failure_before {
                                        probes.hit("consecutive_failures");
                                    }
                                }
                                ScanNote::Boundary { set, .. } => {
                                    eof_reached = true;
                                    probes.hit(if *set == 0 { "boundary_in_init" } else { "boundary_in_other_set" });
                                }
                            }
                        }
                        for e in &o.events {
                            if e.start.byte != e.end.byte && lin.last_outcome == 1 {
                                probes.hit("action_with_accumulated_match");
                            }
                            match e.dec.kind {
                                crate::env::DKind::Continue => {
                                    probes.hit(if e.dec.reset { "continue_with_reset" } else { "continue_without_reset" });
                                    lin.last_outcome = if e.dec.reset { 0 } else { 1 };
                                }
                                crate::env::DKind::Return => {
                                    probes.hit("return");
                                    lin.last_outcome = 0;
                                }
                                crate::env::DKind::Err => {
                                    probes.hit("custom_error");
                                    if e.start.byte != e.end.byte && !e.dec.reset {
                                        probes.hit("custom_error_nonempty_match");
                                    }
                                    if e.dec.reset {
                                        probes.hit("custom_error_after_reset");
                                    }
                                    lin.last_outcome = 0;
                                }
                            }
                            if let Some(k) = e.dec.switch {
                                probes.hit(&format!("switch_to_set_{}", k.min(5)));
                            }
                            let kind = match e.dec.kind {
                                crate::env::DKind::Continue => 1u32,
                                crate::env::DKind::Return => 2,
                                crate::env::DKind::Err => 3,
                            };
                            let t = kind
                                | ((e.dec.reset as u32) << 2)
                                | ((e.dec.switch.is_some() as u32) << 3)
                                | (((e.start.byte != e.end.byte) as u32) << 4)
                                | (((active_before.min(3)) as u32) << 5);
                            if !transitions.contains(&t) {
                                transitions.push(t);
                            }
                            sig = crate::rng::mix(sig, t as u64);
                        }
                        let it = match &o.item {
                            Item::End => 16u32,
                            Item::Tok { .. } => 17,
                            Item::Invalid { .. } => 18,
                            Item::Custom { .. } => 19,
                            _ => 20,
                        } | (((active_before.min(3)) as u32) << 5)
                            | ((since_failure_before as u32) << 8)
                            | ((ended_before as u32) << 9);
                        if !transitions.contains(&it) {
                            transitions.push(it);
                        }
                        sig = crate::rng::mix(sig, it as u64);
                        if since_failure_before && matches!(o.item, Item::Tok { .. }) {
                            probes.hit("token_after_recovery");
                        }
                        if ended_before && got.item == Item::End && spec.unfused_at.is_some() && obs.unfused_fired {
                            probes.hit("poll_after_latch_with_resumed_source");
                        }
                        if ended_before {
                            probes.hit("poll_after_end");
                        }
                        // entry tracking for SwitchEntry
                        let entered = o.events.iter().any(|e| e.dec.switch.is_some())
                            || matches!(o.item, Item::Invalid { .. });
                        let fired_any = !o.events.is_empty() || !matches!(o.item, Item::End);
                        if entered {
                            lin.fresh_entry = true;
                        } else if fired_any {
                            lin.fresh_entry = false;
                        }
                        let mut next: Vec<RefState> = vec![];
                        for (_, s) in matching {
                            if !next.contains(s) {
                                next.push(s.clone());
                            }
                        }
                        lin.refs = next;
                    }

                    if !labels.is_empty() {
                        labels.sort();
                        labels.dedup();
                        if expected.is_empty() {
                            if let Some((o, _)) = alts.first() {
                                expected = outcome_brief(&o.events, &o.item);
                            }
                        }
                        divergence = Some(Divergence {
                            call: call_idx,
                            labels,
                            expected,
                            got: outcome_brief(&got.events, &got.item),
                            note: notes.join(" | "),
                        });
                        break 'ops;
                    }
                }
            }
        }
        if divergence.is_none() && obs.overrun {
            divergence = Some(Divergence {
                call: obs.calls.len().saturating_sub(1),
                labels: vec![Label::Count],
                expected: format!("at most {} items", visible + 1),
                got: "the lexer kept producing items".into(),
                note: "caller gave up".into(),
            });
        }
        // C09's progress clause is reference-free, so it is still evaluated after the first
        // divergence from REF (where lockstep checking stops): in an unforked run no token may
        // start before the end of an earlier token (the lexer went back over reported input),
        // and the caller must not have given up on an endless stream.
        if let Some(d) = divergence.as_mut() {
            if !d.labels.contains(&Label::Count) && obs.forks.len() == 1 {
                // frontier: input already accounted for by earlier items (a token's end; an
                // error's location, which is where its lexeme began)
                let mut last_end = 0usize;
                let mut regress: Option<usize> = None;
                for (i, c) in obs.calls.iter().enumerate() {
                    match &c.item {
                        Item::Tok { start, end, .. } => {
                            if start.byte < last_end && regress.is_none() {
                                regress = Some(i);
                            }
                            last_end = last_end.max(end.byte);
                        }
                        Item::Invalid { at } | Item::Custom { at, .. } => {
                            if at.byte < last_end && regress.is_none() {
                                regress = Some(i);
                            }
                            last_end = last_end.max(at.byte);
                        }
                        _ => {}
                    }
                }
                if let Some(i) = regress {
                    d.labels.push(Label::Count);
                    d.note = format!(
                        "{} | later in the same run (call {}): an item starts before input that earlier items had already accounted for - the lexer went back over reported input",
                        d.note, i
                    );
                } else if obs.overrun {
                    d.labels.push(Label::Count);
                    d.note = format!("{} | later in the same run: the lexer kept producing items beyond n+1 (caller gave up)", d.note);
                }
                d.labels.sort();
                d.labels.dedup();
            }
        }
        let _ = total_bytes;

        // which planned faults actually struck
        let mut faults_fired = vec![];
        for f in &spec.faults {
            let fired = match f {
                Fault::Truncate { .. } => eof_reached,
                Fault::Unfused { .. } => eof_reached && (spec.ctor != Ctor::FromSim || obs.unfused_fired),
                Fault::CorruptAlien { at } | Fault::CorruptAlpha { at, .. } | Fault::Insert { at, .. } => {
                    examined_upto > *at
                }
                Fault::Delete { at } => examined_upto >= *at && (*at < visible || eof_reached),
                Fault::ActionErr { n } => err_events.contains(n),
            };
            faults_fired.push((f.kind().to_string(), fired));
        }
        Verdict { divergence, probes, observations, faults_fired, signature: sig, transitions }
    }
}

// ---------------------------------------------------------------------------------------------
// Reference-free comparisons between executions (C14, C15).

fn events_equal_modulo_text(a: &[Event], b: &[Event], r2: Option<(&RunSpec, &LocTable)>) -> bool {
    a.len() == b.len()
        && a.iter().zip(b.iter()).all(|(x, y)| {
            let peek_ok = x.peek == y.peek
                || match r2 {
                    Some((spec, locs)) => peek_matches(x, y, spec, locs) || peek_matches(y, x, spec, locs),
                    None => false,
                };
            x.rule == y.rule
                && x.n == y.n
                && x.start == y.start
                && x.end == y.end
                && peek_ok
                && x.dec == y.dec
                && x.post_reset == y.post_reset
        })
}

/// C14: two executions of the same run through different constructors must give the same items
/// and the same action log except for `match_()`.
pub fn compare_legs(
    a: &Observed,
    b: &Observed,
    a_name: &str,
    b_name: &str,
    r2: Option<(&RunSpec, &LocTable)>,
) -> Option<Divergence> {
    let n = a.calls.len().max(b.calls.len());
    for i in 0..n {
        match (a.calls.get(i), b.calls.get(i)) {
            (Some(x), Some(y)) => {
                if x.item != y.item || !events_equal_modulo_text(&x.events, &y.events, r2) {
                    return Some(Divergence {
                        call: i,
                        labels: vec![Label::ConstructorDivergence],
                        expected: format!("{}: {}", a_name, outcome_brief(&x.events, &x.item)),
                        got: format!("{}: {}", b_name, outcome_brief(&y.events, &y.item)),
                        note: "same characters, same user state, different constructor".into(),
                    });
                }
            }
            (x, y) => {
                return Some(Divergence {
                    call: i,
                    labels: vec![Label::ConstructorDivergence],
                    expected: format!("{}: {}", a_name, x.map(|c| outcome_brief(&c.events, &c.item)).unwrap_or("<no call>".into())),
                    got: format!("{}: {}", b_name, y.map(|c| outcome_brief(&c.events, &c.item)).unwrap_or("<no call>".into())),
                    note: "histories have different lengths".into(),
                });
            }
        }
    }
    None
}

/// C15: every call made on any replica of a forked run must equal call `k` of the unforked run,
/// where `k` counts the calls of the replica's lineage.
pub fn compare_forked(unforked: &Observed, forked: &Observed) -> Option<Divergence> {
    for (i, c) in forked.calls.iter().enumerate() {
        match unforked.calls.get(c.k as usize) {
            Some(h) => {
                if h.item != c.item || h.events != c.events {
                    return Some(Divergence {
                        call: i,
                        labels: vec![Label::ForkDivergence],
                        expected: format!("call {} of the unforked run: {}", c.k, outcome_brief(&h.events, &h.item)),
                        got: format!("replica {} call {}: {}", c.rep, c.k, outcome_brief(&c.events, &c.item)),
                        note: "a clone did not continue like the original".into(),
                    });
                }
            }
            None => {
                if c.item != Item::End || !c.events.is_empty() {
                    return Some(Divergence {
                        call: i,
                        labels: vec![Label::ForkDivergence],
                        expected: "None (the unforked run had ended)".into(),
                        got: format!("replica {} call {}: {}", c.rep, c.k, outcome_brief(&c.events, &c.item)),
                        note: "a clone produced items after the original's stream had ended".into(),
                    });
                }
            }
        }
    }
    None
}

pub fn compare_repeat(a: &Observed, b: &Observed) -> Option<Divergence> {
    if a.calls == b.calls && a.ops == b.ops {
        return None;
    }
    let i = a.calls.iter().zip(b.calls.iter()).position(|(x, y)| x != y).unwrap_or(a.calls.len().min(b.calls.len()));
    Some(Divergence {
        call: i,
        labels: vec![Label::Nondeterminism],
        expected: a.calls.get(i).map(|c| outcome_brief(&c.events, &c.item)).unwrap_or_default(),
        got: b.calls.get(i).map(|c| outcome_brief(&c.events, &c.item)).unwrap_or_default(),
        note: "the same run executed twice gave different histories".into(),
    })
}

//! The input seam: a by-value character source the simulator owns. Clones are independent (the
//! lexer clones its iterator at every accepting state and re-seats it on every rewind); the only
//! shared thing is the read counter, which is instrumentation and never changes what is delivered.

use crate::env::BudgetExceeded;
use std::cell::Cell;
use std::rc::Rc;

#[derive(Debug, Default)]
pub struct Counter {
    /// reads (calls to `next`) since the driver last reset it
    pub reads: Cell<u64>,
    pub budget: Cell<u64>,
    /// highest position ever delivered + 1
    pub max_pos: Cell<usize>,
    /// an injected `None` was delivered at least once
    pub unfused_fired: Cell<bool>,
    /// the real end of the text was reported at least once
    pub end_reported: Cell<bool>,
    pub total_reads: Cell<u64>,
}

#[derive(Clone, Debug)]
pub struct SimSource {
    text: Rc<[char]>,
    pos: usize,
    /// deliver one `None` when this position is reached, then carry on (a non-fused iterator)
    unfused_at: Option<usize>,
    fired: bool,
    pub ctr: Rc<Counter>,
}

impl SimSource {
    pub fn new(text: Rc<[char]>, unfused_at: Option<usize>, ctr: Rc<Counter>) -> SimSource {
        SimSource { text, pos: 0, unfused_at, fired: false, ctr }
    }
}

impl Iterator for SimSource {
    type Item = char;

    fn next(&mut self) -> Option<char> {
        let c = &self.ctr;
        c.reads.set(c.reads.get() + 1);
        c.total_reads.set(c.total_reads.get() + 1);
        if c.reads.get() > c.budget.get() {
            std::panic::panic_any(BudgetExceeded);
        }
        if self.unfused_at == Some(self.pos) && !self.fired {
            self.fired = true;
            c.unfused_fired.set(true);
            return None;
        }
        if self.pos < self.text.len() {
            let ch = self.text[self.pos];
            self.pos += 1;
            if self.pos > c.max_pos.get() {
                c.max_pos.set(self.pos);
            }
            Some(ch)
        } else {
            c.end_reported.set(true);
            None
        }
    }
}

//! Program-level shrinking: candidate simplifications of a program (with the run spec adapted to
//! each), compiled in one batch by the runner. Rule ids are never renumbered, so the recorded
//! decisions keep their meaning.

use crate::exec::RunSpec;
use crate::ir::*;

fn re_children(r: &Re) -> Vec<Re> {
    // one-step simplifications of the root
    match r {
        Re::Class(Class::Ch(_)) | Re::Eof => vec![],
        Re::Class(c) => class_children(c).into_iter().map(Re::Class).collect(),
        Re::Str(s) => {
            let mut v = vec![];
            if s.len() > 1 {
                for i in 0..s.len() {
                    let mut t = s.clone();
                    t.remove(i);
                    v.push(Re::Str(t));
                }
            } else if s.len() == 1 {
                v.push(Re::ch(s[0]));
            }
            v
        }
        Re::Star(a) | Re::Plus(a) | Re::Opt(a) => vec![(**a).clone()],
        Re::Cat(a, b) | Re::Alt(a, b) => vec![(**a).clone(), (**b).clone()],
    }
}

fn class_children(c: &Class) -> Vec<Class> {
    match c {
        Class::Ch(_) => vec![],
        Class::Any | Class::Builtin(_) => vec![Class::Ch('a'), Class::Ch('b')],
        Class::Set(items) => {
            let mut v = vec![];
            if items.len() > 1 {
                for i in 0..items.len() {
                    let mut t = items.clone();
                    t.remove(i);
                    v.push(Class::Set(t));
                }
            } else if let Some(SetItem::Range(a, b)) = items.first() {
                v.push(Class::Ch(*a));
                v.push(Class::Ch(*b));
            } else if let Some(SetItem::Ch(a)) = items.first() {
                v.push(Class::Ch(*a));
            }
            v
        }
        Class::Union(a, b) => vec![(**a).clone(), (**b).clone()],
        Class::Diff(a, _) => vec![(**a).clone()],
    }
}

/// All regexes obtained by applying one simplification at one position.
fn re_variants(r: &Re) -> Vec<Re> {
    let mut out = re_children(r);
    match r {
        Re::Star(a) => out.extend(re_variants(a).into_iter().map(Re::star)),
        Re::Plus(a) => out.extend(re_variants(a).into_iter().map(Re::plus)),
        Re::Opt(a) => out.extend(re_variants(a).into_iter().map(Re::opt)),
        Re::Cat(a, b) => {
            out.extend(re_variants(a).into_iter().map(|x| Re::cat(x, (**b).clone())));
            out.extend(re_variants(b).into_iter().map(|x| Re::cat((**a).clone(), x)));
        }
        Re::Alt(a, b) => {
            out.extend(re_variants(a).into_iter().map(|x| Re::alt(x, (**b).clone())));
            out.extend(re_variants(b).into_iter().map(|x| Re::alt((**a).clone(), x)));
        }
        _ => {}
    }
    out
}

pub fn program_size(p: &Program) -> usize {
    p.sets
        .iter()
        .map(|s| 3 + s.rules.iter().map(|r| 2 + r.re.size() + r.ctx.as_ref().map(|c| 1 + c.size()).unwrap_or(0)).sum::<usize>())
        .sum()
}

fn switches_to(spec: &RunSpec, k: usize) -> bool {
    spec.overrides.values().any(|d| d.switch == Some(k as u8))
}

pub fn variants(p: &Program, spec: &RunSpec, cap: usize) -> Vec<(Program, RunSpec)> {
    let mut out: Vec<(Program, RunSpec)> = vec![];
    // delete a rule set (never Init); decisions that switch past it are re-indexed
    if !p.unnamed {
        for si in (1..p.sets.len()).rev() {
            if switches_to(spec, si) {
                continue;
            }
            let mut q = p.clone();
            q.sets.remove(si);
            let mut s2 = spec.clone();
            for d in s2.overrides.values_mut() {
                if let Some(k) = d.switch {
                    if k as usize > si {
                        d.switch = Some(k - 1);
                    }
                }
            }
            out.push((q, s2));
        }
    }
    // delete a rule
    for si in 0..p.sets.len() {
        for ri in 0..p.sets[si].rules.len() {
            if si == 0 && p.sets[0].rules.len() == 1 {
                continue;
            }
            let mut q = p.clone();
            q.sets[si].rules.remove(ri);
            out.push((q, spec.clone()));
        }
    }
    // drop a right context, simplify a regex or a context
    for si in 0..p.sets.len() {
        for ri in 0..p.sets[si].rules.len() {
            let r = &p.sets[si].rules[ri];
            if r.ctx.is_some() {
                let mut q = p.clone();
                q.sets[si].rules[ri].ctx = None;
                out.push((q, spec.clone()));
            }
            for v in re_variants(&r.re) {
                let mut q = p.clone();
                q.sets[si].rules[ri].re = v;
                out.push((q, spec.clone()));
            }
            if let Some(c) = &r.ctx {
                for v in re_variants(c) {
                    let mut q = p.clone();
                    q.sets[si].rules[ri].ctx = Some(v);
                    out.push((q, spec.clone()));
                }
            }
        }
    }
    // named -> unnamed when a single rule set is left and nothing switches
    if !p.unnamed && p.sets.len() == 1 && !spec.overrides.values().any(|d| d.switch.is_some()) {
        let mut q = p.clone();
        q.unnamed = true;
        out.push((q, spec.clone()));
    }
    let base = program_size(p);
    let mut out: Vec<(Program, RunSpec)> = out
        .into_iter()
        .filter(|(q, _)| q.well_formed().is_ok() && (program_size(q) < base || q.unnamed != p.unnamed))
        .collect();
    out.sort_by_key(|(q, _)| program_size(q));
    out.dedup_by(|a, b| a.0 == b.0);
    out.truncate(cap);
    out
}

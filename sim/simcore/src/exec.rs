//! Executing one run: the simulated caller drives one or more replicas of the real generated lexer.

use crate::env::{BudgetExceeded, Decision, Env, Event, Profile, RunCfg, UserStateLost};
use crate::ir::Program;
use crate::rep::{Ctor, Item, MakeFn, Rep};
use crate::rng::Rng;
use crate::source::{Counter, SimSource};
use serde::{Deserialize, Serialize};
use std::collections::BTreeMap;
use std::panic::{catch_unwind, AssertUnwindSafe};
use std::rc::Rc;

#[derive(Clone, Copy, Debug, PartialEq, Eq, Hash, Serialize, Deserialize)]
pub enum Op {
    /// call `next()` on replica r
    Next(u8),
    /// clone replica r (the clone gets the next free replica number)
    Fork(u8),
    /// drop replica r
    Drop(u8),
    /// call `next()` on the stranger: an unrelated lexer of the same definition over other text
    /// (`RunSpec::stranger`). Replicas must be unaffected by it (C15: no hidden shared state).
    Stranger,
}

/// What was injected, for the record (the effective text already contains the text faults).
#[derive(Clone, Debug, PartialEq, Eq, Hash, Serialize, Deserialize)]
pub enum Fault {
    Truncate { at: usize },
    Unfused { at: usize },
    CorruptAlien { at: usize },
    CorruptAlpha { at: usize, c: char },
    Insert { at: usize, c: char },
    Delete { at: usize },
    ActionErr { n: u32 },
}

impl Fault {
    pub fn kind(&self) -> &'static str {
        match self {
            Fault::Truncate { .. } => "truncate",
            Fault::Unfused { .. } => "unfused",
            Fault::CorruptAlien { .. } => "corrupt_alien",
            Fault::CorruptAlpha { .. } => "corrupt_alpha",
            Fault::Insert { .. } => "insert",
            Fault::Delete { .. } => "delete",
            Fault::ActionErr { .. } => "action_err",
        }
    }
}

/// Everything that determines a run, explicitly. A replay file is one of these plus the program.
#[derive(Clone, Debug, PartialEq, Eq, Serialize, Deserialize)]
pub struct RunSpec {
    /// effective character sequence (text faults applied)
    pub text: Vec<char>,
    /// the source delivers one `None` at this position and then carries on (FromSim only)
    pub unfused_at: Option<usize>,
    pub decide_seed: u64,
    pub profile: Profile,
    /// explicit decisions by invocation number (fault `action_err`, minimised runs)
    pub overrides: BTreeMap<u32, Decision>,
    pub ctor: Ctor,
    /// explicit caller schedule; `None` = `Next(0)` until the first `End`, then `polls` more
    pub ops: Option<Vec<Op>>,
    pub polls: u8,
    /// seed of the random fork scheduler (C15 runs); ignored when `ops` is given
    pub fork_sched: Option<u64>,
    pub base_text: Vec<char>,
    pub faults: Vec<Fault>,
    /// text of an unrelated lexer value of the same definition that the caller steps in between
    /// (`Op::Stranger`; with a fork scheduler at seeded instants). Its items are not observed.
    #[serde(default)]
    pub stranger: Option<Vec<char>>,
}

impl RunSpec {
    /// The characters the lexer can ever be given before the first end-of-input report.
    pub fn visible_end(&self) -> usize {
        match self.unfused_at {
            Some(p) => p.min(self.text.len()),
            None => self.text.len(),
        }
    }

    pub fn step_budget(&self) -> u64 {
        let n = self.text.len() as u64;
        8 * (n + 2) * (n + 2) + 1024
    }

    pub fn run_cfg(&self, prog: &Program, has_text: bool) -> RunCfg {
        RunCfg::new(
            prog,
            self.decide_seed,
            self.profile,
            self.overrides.clone(),
            has_text,
            self.step_budget(),
        )
    }
}

#[derive(Clone, Debug, PartialEq, Eq, Hash, Serialize, Deserialize)]
pub struct CallRec {
    pub rep: u8,
    /// index of this call within the replica's lineage (calls made by its ancestors count)
    pub k: u32,
    pub item: Item,
    pub events: Vec<Event>,
    /// source reads during the call (FromSim only)
    pub reads: u64,
    /// user-state fingerprint (invocations, canary, configured) before and after the call
    pub env_before: (u32, u64, bool),
    pub env_after: (u32, u64, bool),
}

#[derive(Clone, Debug, PartialEq, Eq, Serialize, Deserialize)]
pub struct Observed {
    /// the schedule as executed
    pub ops: Vec<Op>,
    pub calls: Vec<CallRec>,
    /// lineage of every replica: (parent, k at fork)
    pub forks: Vec<(u8, u32)>,
    pub total_reads: u64,
    /// highest input position delivered + 1 (FromSim only)
    pub max_pos: usize,
    pub unfused_fired: bool,
    /// a replica produced more items than the caller is prepared to take (n + 2 + polls)
    pub overrun: bool,
}

struct Live<'a> {
    rep: Option<Box<dyn Rep<'a> + 'a>>,
    k: u32,
    ended: bool,
    polls_left: u8,
    dead: bool,
    non_end_items: u64,
}

fn panic_message(p: Box<dyn std::any::Any + Send>) -> Item {
    if p.is::<BudgetExceeded>() {
        return Item::NoProgress;
    }
    if p.is::<UserStateLost>() {
        return Item::Panic("user state lost: an action found a default-constructed state".into());
    }
    if let Some(s) = p.downcast_ref::<&str>() {
        return Item::Panic((*s).to_string());
    }
    if let Some(s) = p.downcast_ref::<String>() {
        return Item::Panic(s.clone());
    }
    Item::Panic("<non-string panic payload>".into())
}

pub const MAX_REPLICAS: usize = 4;

pub fn execute(make: MakeFn, prog: &Program, spec: &RunSpec) -> Observed {
    let has_text = spec.ctor.has_text();
    let cfg = Rc::new(spec.run_cfg(prog, has_text));
    let visible = spec.visible_end();
    // String constructors see exactly the characters a fused source would deliver.
    let text_str: String = if spec.ctor == Ctor::FromSim {
        String::new()
    } else {
        spec.text[..visible].iter().collect()
    };
    let ctr = Rc::new(Counter::default());
    ctr.budget.set(spec.step_budget());
    let src = SimSource::new(Rc::from(spec.text.clone()), spec.unfused_at, ctr.clone());
    let env = Env::new(cfg);

    let first = make(spec.ctor, &text_str, src, env);
    let mut reps: Vec<Live> = vec![Live {
        rep: Some(first),
        k: 0,
        ended: false,
        polls_left: spec.polls,
        dead: false,
        non_end_items: 0,
    }];
    let mut obs = Observed {
        ops: vec![],
        calls: vec![],
        forks: vec![(0, 0)],
        total_reads: 0,
        max_pos: 0,
        unfused_fired: false,
        overrun: false,
    };
    // the stranger has its own source, step counter and user state: nothing is shared by the harness
    let stranger_str: String = match (&spec.stranger, spec.ctor) {
        (Some(t), c) if c != Ctor::FromSim => t.iter().collect(),
        _ => String::new(),
    };
    let mut stranger = spec.stranger.as_ref().map(|t| {
        let sctr = Rc::new(Counter::default());
        sctr.budget.set(8 * (t.len() as u64 + 2) * (t.len() as u64 + 2) + 1024);
        let ssrc = SimSource::new(Rc::from(t.clone()), None, sctr);
        let scfg = Rc::new(spec.run_cfg(prog, has_text));
        (make(spec.ctor, &stranger_str, ssrc, Env::new(scfg)), 0usize, t.len() + 3)
    });
    let item_cap = spec.text.len() as u64 + 2;
    let mut sched_rng = spec.fork_sched.map(Rng::new);
    let mut scripted = spec.ops.clone().map(|v| v.into_iter());
    // hard cap on caller operations, far above anything a terminating lexer needs
    let op_cap = ((spec.text.len() + 8) * (MAX_REPLICAS + 1) + 64) * if spec.stranger.is_some() { 2 } else { 1 };

    for _ in 0..op_cap {
        let op = match &mut scripted {
            Some(it) => match it.next() {
                Some(op) => op,
                None => break,
            },
            None => match next_op(&reps, &mut sched_rng, stranger.is_some()) {
                Some(op) => op,
                None => break,
            },
        };
        match op {
            Op::Stranger => {
                if let Some((st, calls, cap)) = stranger.as_mut() {
                    if *calls < *cap {
                        *calls += 1;
                        if catch_unwind(AssertUnwindSafe(|| st.step())).is_err() {
                            *cap = 0;
                        }
                        st.env().log.clear();
                        obs.ops.push(op);
                    }
                }
            }
            Op::Fork(r) => {
                let r = r as usize;
                if r >= reps.len() || reps[r].rep.is_none() || reps[r].dead {
                    continue;
                }
                let child = reps[r].rep.as_ref().unwrap().fork();
                let l = Live {
                    rep: Some(child),
                    k: reps[r].k,
                    ended: reps[r].ended,
                    polls_left: reps[r].polls_left,
                    dead: false,
                    non_end_items: reps[r].non_end_items,
                };
                obs.forks.push((r as u8, reps[r].k));
                reps.push(l);
                obs.ops.push(op);
            }
            Op::Drop(r) => {
                let r = r as usize;
                if r >= reps.len() || reps[r].rep.is_none() {
                    continue;
                }
                reps[r].rep = None;
                obs.ops.push(op);
            }
            Op::Next(r) => {
                let ri = r as usize;
                if ri >= reps.len() || reps[ri].rep.is_none() || reps[ri].dead {
                    continue;
                }
                let live = &mut reps[ri];
                let rep = live.rep.as_mut().unwrap();
                ctr.reads.set(0);
                rep.env().actions_this_call = 0;
                let before = rep.env().fingerprint();
                let item = match catch_unwind(AssertUnwindSafe(|| rep.step())) {
                    Ok(it) => it,
                    Err(p) => {
                        live.dead = true;
                        panic_message(p)
                    }
                };
                let rep = live.rep.as_mut().unwrap();
                let events = std::mem::take(&mut rep.env().log);
                let after = rep.env().fingerprint();
                obs.calls.push(CallRec {
                    rep: r,
                    k: live.k,
                    item: item.clone(),
                    events,
                    reads: ctr.reads.get(),
                    env_before: before,
                    env_after: after,
                });
                obs.ops.push(op);
                live.k += 1;
                if item == Item::End {
                    if live.ended {
                        live.polls_left = live.polls_left.saturating_sub(1);
                    }
                    live.ended = true;
                } else {
                    live.non_end_items += 1;
                    if live.non_end_items > item_cap + spec.polls as u64 {
                        obs.overrun = true;
                        live.dead = true;
                    }
                }
            }
        }
    }
    obs.total_reads = ctr.total_reads.get();
    obs.max_pos = ctr.max_pos.get();
    obs.unfused_fired = ctr.unfused_fired.get();
    obs
}

/// Default caller: one replica polled to the end; with a fork scheduler, up to four replicas
/// forked at seeded instants and driven in a seeded interleaving.
fn next_op(reps: &[Live], rng: &mut Option<Rng>, has_stranger: bool) -> Option<Op> {
    let runnable: Vec<usize> = reps
        .iter()
        .enumerate()
        .filter(|(_, l)| l.rep.is_some() && !l.dead && !(l.ended && l.polls_left == 0))
        .map(|(i, _)| i)
        .collect();
    if runnable.is_empty() {
        return None;
    }
    match rng {
        None => Some(Op::Next(runnable[0] as u8)),
        Some(r) => {
            let live = reps.iter().filter(|l| l.rep.is_some()).count();
            if has_stranger && r.chance(1, 3) {
                return Some(Op::Stranger);
            }
            let pick = *r.pick(&runnable);
            if reps.len() < MAX_REPLICAS + 2 && live < MAX_REPLICAS && r.chance(1, 4) {
                return Some(Op::Fork(pick as u8));
            }
            if live > 1 && r.chance(1, 16) {
                return Some(Op::Drop(pick as u8));
            }
            Some(Op::Next(pick as u8))
        }
    }
}

//! Macros expanded inside the generated corpus crates, next to each `lexer!{}`.

/// Body of every `=>` / `=?` action: observe, log, ask `Env` for the decision, perform it.
#[macro_export]
macro_rules! act {
    ($lx:ident, $k:expr, $sw:tt, infallible) => {{
        let d = $crate::act_prologue!($lx, $k);
        match d.kind {
            $crate::DKind::Continue => $crate::act_finish!($lx, d, $sw, cont),
            _ => {
                let t = $crate::Tok::from_action($k, d.n);
                $crate::act_finish!($lx, d, $sw, ret t)
            }
        }
    }};
    ($lx:ident, $k:expr, $sw:tt, fallible) => {{
        let d = $crate::act_prologue!($lx, $k);
        match d.kind {
            $crate::DKind::Continue => $crate::act_finish!($lx, d, $sw, cont),
            $crate::DKind::Return => {
                let t: ::std::result::Result<$crate::Tok, $crate::SimErr> =
                    Ok($crate::Tok::from_action($k, d.n));
                $crate::act_finish!($lx, d, $sw, ret t)
            }
            $crate::DKind::Err => {
                let t: ::std::result::Result<$crate::Tok, $crate::SimErr> =
                    Err($crate::SimErr { rule: $k, n: d.n });
                $crate::act_finish!($lx, d, $sw, ret t)
            }
        }
    }};
}

#[macro_export]
macro_rules! act_prologue {
    ($lx:ident, $k:expr) => {{
        let (s, e) = $lx.match_loc();
        let pk = $lx.peek();
        let tx = if $lx.state().wants_text() {
            Some($lx.match_().to_owned())
        } else {
            None
        };
        let d = $lx.state().on_action(
            $k,
            (s.line, s.col, s.byte_idx),
            (e.line, e.col, e.byte_idx),
            pk,
            tx,
        );
        if d.reset {
            $lx.reset_match();
            let (a, b) = $lx.match_loc();
            $lx.state()
                .note_post_reset((a.line, a.col, a.byte_idx), (b.line, b.col, b.byte_idx));
        }
        d
    }};
}

#[macro_export]
macro_rules! act_finish {
    ($lx:ident, $d:ident, noswitch, cont) => {
        $lx.continue_()
    };
    ($lx:ident, $d:ident, noswitch, ret $t:ident) => {
        $lx.return_($t)
    };
    ($lx:ident, $d:ident, $sw:ident, cont) => {
        match $d.switch {
            None => $lx.continue_(),
            Some(k) => {
                if $d.separate {
                    let _: ::lexgen_util::SemanticActionResult<()> = $lx.switch($sw(k));
                    $lx.continue_()
                } else {
                    $lx.switch($sw(k))
                }
            }
        }
    };
    ($lx:ident, $d:ident, $sw:ident, ret $t:ident) => {
        match $d.switch {
            None => $lx.return_($t),
            Some(k) => {
                if $d.separate {
                    let _: ::lexgen_util::SemanticActionResult<()> = $lx.switch($sw(k));
                    $lx.return_($t)
                } else {
                    $lx.switch_and_return($sw(k), $t)
                }
            }
        }
    };
}

/// `Rep` implementation and constructor dispatch for one generated lexer type.
#[macro_export]
macro_rules! glue {
    ($lexer:ident) => {
        impl<'input: 'r, 'r, I: Iterator<Item = char> + Clone + 'r> $crate::Rep<'r>
            for $lexer<'input, I>
        {
            fn step(&mut self) -> $crate::Item {
                match Iterator::next(self) {
                    None => $crate::Item::End,
                    Some(Ok((s, t, e))) => $crate::Item::Tok {
                        start: $crate::SLoc::from_parts(s.line, s.col, s.byte_idx),
                        tok: t,
                        end: $crate::SLoc::from_parts(e.line, e.col, e.byte_idx),
                    },
                    Some(Err(err)) => {
                        let at = $crate::SLoc::from_parts(
                            err.location.line,
                            err.location.col,
                            err.location.byte_idx,
                        );
                        match err.kind {
                            ::lexgen_util::LexerErrorKind::InvalidToken => {
                                $crate::Item::Invalid { at }
                            }
                            ::lexgen_util::LexerErrorKind::Custom(c) => $crate::Item::Custom {
                                at,
                                err: $crate::IntoSimErr::into_sim(c),
                            },
                        }
                    }
                }
            }

            fn env(&mut self) -> &mut $crate::Env {
                self.state()
            }

            fn fork(&self) -> Box<dyn $crate::Rep<'r> + 'r> {
                Box::new(self.clone())
            }
        }

        pub fn make<'a>(
            ctor: $crate::Ctor,
            text: &'a str,
            src: $crate::SimSource,
            env: $crate::Env,
        ) -> Box<dyn $crate::Rep<'a> + 'a> {
            match ctor {
                $crate::Ctor::New => {
                    let mut l = $lexer::new(text);
                    *l.state() = env;
                    Box::new(l)
                }
                $crate::Ctor::NewWithState => Box::new($lexer::new_with_state(text, env)),
                $crate::Ctor::FromIter => {
                    let mut l = $lexer::new_from_iter(text.chars());
                    *l.state() = env;
                    Box::new(l)
                }
                $crate::Ctor::FromIterWithState => {
                    Box::new($lexer::new_from_iter_with_state(text.chars(), env))
                }
                $crate::Ctor::FromSim => Box::new($lexer::new_from_iter_with_state(src, env)),
            }
        }
    };
}

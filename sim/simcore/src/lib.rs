//! lexsim core: everything the corpus worker binaries and the runner share.

pub mod env;
pub mod exec;
pub mod fx;
pub mod gen;
pub mod ir;
pub mod loc;
pub mod macros;
pub mod oracle;
pub mod refmodel;
pub mod render;
pub mod rep;
pub mod rng;
pub mod shrink;
pub mod source;
pub mod worker;
pub mod workload;

pub use env::{DKind, Decision, Env, IntoSimErr, SimErr, Tok};
pub use loc::SLoc;
pub use rep::{Ctor, Item, Rep};
pub use source::SimSource;

//! Workload: input streams (model-guided and degenerate shapes) and fault plans (DESIGN.md §3.2, §4).

use crate::env::{DKind, Decision, Profile};
use crate::exec::{Fault, RunSpec};
use crate::gen::{full_alphabet, ALIEN, ALPHABET};
use crate::ir::*;
use crate::loc::LocTable;
use crate::refmodel::{RefInput, RefOutcome, RefProg, RefState, ScanNote};
use crate::rep::{Ctor, Item};
use crate::rng::Rng;
use std::collections::BTreeMap;

fn sample_class(c: &Class, r: &mut Rng, out: &mut Vec<char>) {
    let m = c.members_in(&ALPHABET);
    if m.is_empty() {
        // no member in the alphabet (e.g. `['A'-'Z']`): search a few well-known places
        for cand in ['A', '0', '-', '_', 'x', 'z', ',', '"', '\'', '*', '(', ')'] {
            if c.contains(cand) {
                out.push(cand);
                return;
            }
        }
        out.push('a');
    } else {
        out.push(*r.pick(&m));
    }
}

/// Random walk on the regex tree: a string of the rule's language (up to `$`).
pub fn sample_lexeme(re: &Re, r: &mut Rng, out: &mut Vec<char>) {
    match re {
        Re::Class(c) => sample_class(c, r, out),
        Re::Str(s) => out.extend(s.iter()),
        Re::Eof => {}
        Re::Star(a) => {
            for _ in 0..r.range(0, 2) {
                sample_lexeme(a, r, out);
            }
        }
        Re::Plus(a) => {
            for _ in 0..r.range(1, 3) {
                sample_lexeme(a, r, out);
            }
        }
        Re::Opt(a) => {
            if r.chance(1, 2) {
                sample_lexeme(a, r, out);
            }
        }
        Re::Cat(a, b) => {
            sample_lexeme(a, r, out);
            sample_lexeme(b, r, out);
        }
        Re::Alt(a, b) => {
            if r.chance(1, 2) {
                sample_lexeme(a, r, out)
            } else {
                sample_lexeme(b, r, out)
            }
        }
    }
}

#[derive(Clone, Copy, Debug, PartialEq, Eq)]
pub enum Shape {
    ModelGuided,
    Random,
    Empty,
    Repeated,
    Unlexable,
    UnicodeHeavy,
}

pub struct Trace {
    pub steps: Vec<(RefOutcome, RefState)>,
}

pub fn ref_trace(
    prog: &Program,
    rp: &mut RefProg,
    text: &[char],
    spec_like: &RunSpec,
) -> Trace {
    let locs = LocTable::new(text);
    let inp = RefInput { text, end: text.len(), locs: &locs, with_text: false };
    let cfg = spec_like.run_cfg(prog, false);
    Trace { steps: rp.trace(&inp, &cfg, text.len() + 3) }
}

/// The rule set REF is in when it runs out of text (where the next lexeme would be scanned).
fn starving_set(tr: &Trace) -> usize {
    for (o, st) in tr.steps.iter().rev() {
        for n in o.notes.iter().rev() {
            return match n {
                ScanNote::Boundary { set, .. } => *set,
                ScanNote::Fired { eof: true, set, .. } => *set,
                ScanNote::Failed { eof_read: true, set, .. } => *set,
                _ => st.set,
            };
        }
    }
    0
}

pub fn gen_text(
    prog: &Program,
    rp: &mut RefProg,
    r: &mut Rng,
    shape: Shape,
    decide_seed: u64,
    profile: Profile,
    max_lexemes: usize,
) -> Vec<char> {
    let alpha = full_alphabet();
    match shape {
        Shape::Empty => vec![],
        Shape::Random => {
            let n = r.range(1, 16);
            (0..n).map(|_| *r.pick(&alpha)).collect()
        }
        Shape::UnicodeHeavy => {
            let n = r.range(1, 14);
            let wide = ['é', '世', '😀', '\u{301}', '\u{200B}', '\n', '\t', 'a', 'b', ' '];
            (0..n).map(|_| *r.pick(&wide)).collect()
        }
        Shape::Repeated => {
            let c = *r.pick(&alpha);
            vec![c; r.range(1, 24)]
        }
        Shape::Unlexable => vec![ALIEN; r.range(1, 6)],
        Shape::ModelGuided => {
            let mut text: Vec<char> = vec![];
            let probe = RunSpec {
                text: vec![],
                unfused_at: None,
                decide_seed,
                profile,
                overrides: BTreeMap::new(),
                ctor: Ctor::FromSim,
                ops: None,
                polls: 0,
                fork_sched: None,
                base_text: vec![],
                faults: vec![],
                stranger: None,
            };
            let n_lex = r.range(1, max_lexemes.max(1));
            for _ in 0..n_lex {
                let tr = ref_trace(prog, rp, &text, &probe);
                let set = starving_set(&tr);
                let rules = &prog.sets[set.min(prog.sets.len() - 1)].rules;
                if rules.is_empty() {
                    text.push(*r.pick(&alpha));
                    continue;
                }
                let rule = r.pick(rules);
                sample_lexeme(&rule.re, r, &mut text);
                if let Some(c) = &rule.ctx {
                    if r.chance(1, 2) {
                        // often satisfy the context (it is not consumed, so it becomes the next
                        // lexeme's beginning)
                        sample_lexeme(c, r, &mut text);
                    }
                }
                if r.chance(1, 12) {
                    text.push(*r.pick(&alpha));
                }
                if text.len() > 48 {
                    break;
                }
            }
            text
        }
    }
}

/// Interesting fault positions relative to the fault-free REF trace of the base run (§4, P1-P6).
pub struct Placement {
    /// inside a lexeme that already has a shorter accepted prefix, or whose recovery needed a rewind
    pub p1_rewind: Vec<usize>,
    /// first character after a switch
    pub p2_after_switch: Vec<usize>,
    /// inside the lookahead window of a context rule
    pub p3_lookahead: Vec<usize>,
    /// inside a lexeme scanned after a `continue_` without reset
    pub p4_accumulated: Vec<usize>,
    /// lexeme interiors (any position strictly inside a fired lexeme)
    pub interior: Vec<usize>,
    /// action invocation numbers of fallible rules
    pub fallible_invocations: Vec<u32>,
    pub calls: usize,
}

pub fn placements(prog: &Program, tr: &Trace, n: usize) -> Placement {
    let mut p = Placement {
        p1_rewind: vec![],
        p2_after_switch: vec![],
        p3_lookahead: vec![],
        p4_accumulated: vec![],
        interior: vec![],
        fallible_invocations: vec![],
        calls: tr.steps.len(),
    };
    let mut accumulated = false;
    for (o, _) in &tr.steps {
        let mut ev = o.events.iter();
        for note in &o.notes {
            if let ScanNote::Fired { rule, from, to, rewound_from, lookahead_to, .. } = note {
                for q in (*from + 1)..*to {
                    p.interior.push(q);
                    if accumulated {
                        p.p4_accumulated.push(q);
                    }
                }
                if accumulated && *from < n {
                    p.p4_accumulated.push(*from);
                }
                if let Some(rf) = rewound_from {
                    for q in *to..(*rf).min(n) {
                        p.p1_rewind.push(q);
                    }
                    if *to > *from {
                        p.p1_rewind.push(*to - 1);
                    }
                }
                for q in *to..(*lookahead_to).min(n) {
                    p.p3_lookahead.push(q);
                }
                let kind = prog.rule(*rule).map(|(_, r)| r.kind);
                match kind {
                    Some(Kind::Infallible) | Some(Kind::Fallible) => {
                        if let Some(e) = ev.next() {
                            if kind == Some(Kind::Fallible) {
                                p.fallible_invocations.push(e.n);
                            }
                            if e.dec.switch.is_some() && *to < n {
                                p.p2_after_switch.push(*to);
                            }
                            accumulated = e.dec.kind == DKind::Continue && !e.dec.reset;
                        }
                    }
                    _ => accumulated = false,
                }
            }
        }
        if matches!(o.item, Item::Invalid { .. }) {
            accumulated = false;
        }
    }
    p
}

/// Applies one text fault to a base text.
pub fn apply_fault(base: &[char], f: &Fault) -> (Vec<char>, Option<usize>) {
    let mut t = base.to_vec();
    let mut unfused = None;
    match f {
        Fault::Truncate { at } => t.truncate(*at),
        Fault::Unfused { at } => unfused = Some(*at),
        Fault::CorruptAlien { at } => {
            if *at < t.len() {
                t[*at] = ALIEN
            }
        }
        Fault::CorruptAlpha { at, c } => {
            if *at < t.len() {
                t[*at] = *c
            }
        }
        Fault::Insert { at, c } => {
            let at = (*at).min(t.len());
            t.insert(at, *c)
        }
        Fault::Delete { at } => {
            if *at < t.len() {
                t.remove(*at);
            }
        }
        Fault::ActionErr { .. } => {}
    }
    (t, unfused)
}

pub fn err_override(n: u32) -> (u32, Decision) {
    (n, Decision { kind: DKind::Err, reset: false, switch: None, separate: false, n })
}

/// A sampled fault (quick tiers of the exploration-level checks): biased to P1-P6.
pub fn sample_fault(r: &mut Rng, base: &[char], pl: &Placement, allow_unfused: bool) -> Option<Fault> {
    let n = base.len();
    if n == 0 {
        return None;
    }
    let pools: [&Vec<usize>; 5] =
        [&pl.p1_rewind, &pl.p2_after_switch, &pl.p3_lookahead, &pl.p4_accumulated, &pl.interior];
    let mut at = r.usize_below(n);
    for _ in 0..3 {
        let pool = pools[r.usize_below(pools.len())];
        if !pool.is_empty() {
            at = *r.pick(pool);
            break;
        }
    }
    if r.chance(1, 10) {
        at = if r.chance(1, 2) { 0 } else { n - 1 };
    }
    let at = at.min(n - 1);
    let alpha = &ALPHABET;
    Some(match r.below(if allow_unfused { 12 } else { 10 }) {
        0..=2 => Fault::CorruptAlien { at },
        3..=4 => Fault::CorruptAlpha { at, c: *r.pick(alpha) },
        5..=6 => Fault::Truncate { at },
        7 => Fault::Insert { at, c: if r.chance(1, 2) { ALIEN } else { *r.pick(alpha) } },
        8 => Fault::Delete { at },
        9 => {
            if pl.fallible_invocations.is_empty() {
                Fault::CorruptAlien { at }
            } else {
                Fault::ActionErr { n: *r.pick(&pl.fallible_invocations) }
            }
        }
        _ => Fault::Unfused { at },
    })
}

//! SplitMix64 streams. One integer (VERIF_SEED) decides everything: every stream is derived from
//! it by hashing in a purpose tag and an index; nothing here reads a clock or an address.

#[inline]
pub fn mix(a: u64, b: u64) -> u64 {
    let mut z = a
        .rotate_left(17)
        .wrapping_add(b.wrapping_mul(0x9E37_79B9_7F4A_7C15))
        .wrapping_add(0x632B_E59B_D9B4_E019);
    z = (z ^ (z >> 30)).wrapping_mul(0xBF58_476D_1CE4_E5B9);
    z = (z ^ (z >> 27)).wrapping_mul(0x94D0_49BB_1331_11EB);
    z ^ (z >> 31)
}

pub fn tag(s: &str) -> u64 {
    let mut h = 0xcbf2_9ce4_8422_2325u64;
    for b in s.bytes() {
        h ^= b as u64;
        h = h.wrapping_mul(0x0000_0100_0000_01B3);
    }
    h
}

#[derive(Clone, Debug)]
pub struct Rng(pub u64);

impl Rng {
    pub fn new(seed: u64) -> Rng {
        Rng(mix(seed, 0x51ed_270b_7a3f_11c9))
    }

    /// Stream for (`seed`, purpose, index).
    pub fn stream(seed: u64, purpose: &str, idx: u64) -> Rng {
        Rng::new(mix(mix(seed, tag(purpose)), idx))
    }

    #[inline]
    pub fn next_u64(&mut self) -> u64 {
        self.0 = self.0.wrapping_add(0x9E37_79B9_7F4A_7C15);
        let mut z = self.0;
        z = (z ^ (z >> 30)).wrapping_mul(0xBF58_476D_1CE4_E5B9);
        z = (z ^ (z >> 27)).wrapping_mul(0x94D0_49BB_1331_11EB);
        z ^ (z >> 31)
    }

    /// Uniform in 0..n (n > 0).
    #[inline]
    pub fn below(&mut self, n: u64) -> u64 {
        debug_assert!(n > 0);
        ((self.next_u64() as u128 * n as u128) >> 64) as u64
    }

    #[inline]
    pub fn usize_below(&mut self, n: usize) -> usize {
        self.below(n as u64) as usize
    }

    /// Inclusive range.
    pub fn range(&mut self, lo: usize, hi: usize) -> usize {
        lo + self.usize_below(hi - lo + 1)
    }

    /// True with probability num/den.
    #[inline]
    pub fn chance(&mut self, num: u64, den: u64) -> bool {
        self.below(den) < num
    }

    pub fn pick<'a, T>(&mut self, xs: &'a [T]) -> &'a T {
        &xs[self.usize_below(xs.len())]
    }

    /// Index drawn according to integer weights (sum > 0).
    pub fn weighted(&mut self, weights: &[u32]) -> usize {
        let total: u64 = weights.iter().map(|w| *w as u64).sum();
        let mut x = self.below(total.max(1));
        for (i, w) in weights.iter().enumerate() {
            if x < *w as u64 {
                return i;
            }
            x -= *w as u64;
        }
        weights.len() - 1
    }
}

//! REF — the executable reference model (DESIGN.md §5).
//!
//! Regular expressions are interpreted with Brzozowski derivatives over the syntax tree; `$` is a
//! regex that consumes the end-of-input symbol. Nothing here shares code or an algorithm with
//! lexgen's NFA/DFA construction.

use crate::env::{decide, DKind, Event, RunCfg, SimErr, Tok};
use crate::fx::FxMap;
use crate::ir::*;
use crate::loc::LocTable;
use crate::rep::Item;

pub type Id = u32;
const VOID: Id = 0;
const EPS: Id = 1;
const EOF_SYM: u32 = u32::MAX;

#[derive(Clone, Debug, PartialEq, Eq, Hash)]
enum Node {
    Void,
    Eps,
    Cls(u32),
    Eof,
    Cat(Id, Id),
    Alt(Box<[Id]>),
    Star(Id),
}

pub struct Arena {
    nodes: Vec<Node>,
    index: FxMap<Node, Id>,
    classes: Vec<Class>,
    class_index: FxMap<Class, u32>,
    nullable: Vec<bool>,
    can_continue: Vec<bool>,
    dcache: FxMap<(Id, u32), Id>,
}

impl Arena {
    pub fn new() -> Arena {
        let mut a = Arena {
            nodes: vec![],
            index: Default::default(),
            classes: vec![],
            class_index: Default::default(),
            nullable: vec![],
            can_continue: vec![],
            dcache: Default::default(),
        };
        assert_eq!(a.intern(Node::Void), VOID);
        assert_eq!(a.intern(Node::Eps), EPS);
        a
    }

    pub fn n_terms(&self) -> usize {
        self.nodes.len()
    }

    fn intern(&mut self, n: Node) -> Id {
        if let Some(id) = self.index.get(&n) {
            return *id;
        }
        let id = self.nodes.len() as Id;
        let (nul, cc) = match &n {
            Node::Void => (false, false),
            Node::Eps => (true, false),
            Node::Cls(_) => (false, true),
            Node::Eof => (false, true),
            Node::Cat(a, b) => {
                let (a, b) = (*a as usize, *b as usize);
                (
                    self.nullable[a] && self.nullable[b],
                    self.can_continue[a] || (self.nullable[a] && self.can_continue[b]),
                )
            }
            Node::Alt(v) => (
                v.iter().any(|x| self.nullable[*x as usize]),
                v.iter().any(|x| self.can_continue[*x as usize]),
            ),
            Node::Star(a) => (true, self.can_continue[*a as usize]),
        };
        self.nodes.push(n.clone());
        self.nullable.push(nul);
        self.can_continue.push(cc);
        self.index.insert(n, id);
        id
    }

    fn cls(&mut self, c: &Class) -> Id {
        let k = match self.class_index.get(c) {
            Some(k) => *k,
            None => {
                let k = self.classes.len() as u32;
                self.classes.push(c.clone());
                self.class_index.insert(c.clone(), k);
                k
            }
        };
        self.intern(Node::Cls(k))
    }

    fn cat(&mut self, a: Id, b: Id) -> Id {
        if a == VOID || b == VOID {
            return VOID;
        }
        if a == EPS {
            return b;
        }
        if b == EPS {
            return a;
        }
        // right-associate so that the set of reachable terms stays finite
        if let Node::Cat(x, y) = self.nodes[a as usize].clone() {
            let yb = self.cat(y, b);
            return self.cat(x, yb);
        }
        self.intern(Node::Cat(a, b))
    }

    fn alt(&mut self, items: Vec<Id>) -> Id {
        let mut flat: Vec<Id> = Vec::with_capacity(items.len());
        for it in items {
            match &self.nodes[it as usize] {
                Node::Void => {}
                Node::Alt(v) => flat.extend(v.iter().copied()),
                _ => flat.push(it),
            }
        }
        flat.sort_unstable();
        flat.dedup();
        match flat.len() {
            0 => VOID,
            1 => flat[0],
            _ => self.intern(Node::Alt(flat.into_boxed_slice())),
        }
    }

    fn star(&mut self, a: Id) -> Id {
        match &self.nodes[a as usize] {
            Node::Void | Node::Eps => EPS,
            Node::Star(_) => a,
            _ => self.intern(Node::Star(a)),
        }
    }

    pub fn compile(&mut self, r: &Re) -> Id {
        match r {
            Re::Class(c) => self.cls(c),
            Re::Str(s) => {
                let mut acc = EPS;
                for c in s.iter().rev() {
                    let k = self.cls(&Class::Ch(*c));
                    acc = self.cat(k, acc);
                }
                if s.is_empty() {
                    // an empty literal can never be left in lexgen's NFA; well-formed programs
                    // contain none
                    VOID
                } else {
                    acc
                }
            }
            Re::Eof => self.intern(Node::Eof),
            Re::Star(a) => {
                let a = self.compile(a);
                self.star(a)
            }
            Re::Plus(a) => {
                let a = self.compile(a);
                let s = self.star(a);
                self.cat(a, s)
            }
            Re::Opt(a) => {
                let a = self.compile(a);
                self.alt(vec![EPS, a])
            }
            Re::Cat(a, b) => {
                let a = self.compile(a);
                let b = self.compile(b);
                self.cat(a, b)
            }
            Re::Alt(a, b) => {
                let a = self.compile(a);
                let b = self.compile(b);
                self.alt(vec![a, b])
            }
        }
    }

    #[inline]
    pub fn is_nullable(&self, t: Id) -> bool {
        self.nullable[t as usize]
    }

    #[inline]
    pub fn can_cont(&self, t: Id) -> bool {
        self.can_continue[t as usize]
    }

    /// Derivative with respect to a character (`Some`) or the end-of-input symbol (`None`).
    pub fn deriv(&mut self, t: Id, sym: Option<char>) -> Id {
        if t == VOID || t == EPS {
            return VOID;
        }
        let key = (t, sym.map(|c| c as u32).unwrap_or(EOF_SYM));
        if let Some(r) = self.dcache.get(&key) {
            return *r;
        }
        let r = match self.nodes[t as usize].clone() {
            Node::Void | Node::Eps => VOID,
            Node::Cls(k) => match sym {
                Some(c) if self.classes[k as usize].contains(c) => EPS,
                _ => VOID,
            },
            Node::Eof => {
                if sym.is_none() {
                    EPS
                } else {
                    VOID
                }
            }
            Node::Cat(a, b) => {
                let da = self.deriv(a, sym);
                let left = self.cat(da, b);
                if self.nullable[a as usize] {
                    let db = self.deriv(b, sym);
                    self.alt(vec![left, db])
                } else {
                    left
                }
            }
            Node::Alt(v) => {
                let ds: Vec<Id> = v.iter().map(|x| self.deriv(*x, sym)).collect();
                self.alt(ds)
            }
            Node::Star(a) => {
                let da = self.deriv(a, sym);
                self.cat(da, t)
            }
        };
        self.dcache.insert(key, r);
        r
    }
}

impl Default for Arena {
    fn default() -> Self {
        Arena::new()
    }
}

#[derive(Clone, Debug)]
pub struct RefRule {
    pub id: u32,
    pub kind: Kind,
    pub term: Id,
    pub ctx: Option<Id>,
}

pub struct RefProg {
    pub arena: Arena,
    pub sets: Vec<Vec<RefRule>>,
    /// symbols examined so far (a work counter for workload sizing; not part of the semantics)
    pub work: u64,
}

#[derive(Clone, Debug, PartialEq, Eq, Hash)]
pub struct RefState {
    /// next unread character
    pub pos: usize,
    /// active rule set
    pub set: usize,
    /// start of the current match
    pub ms: usize,
    pub done: bool,
    /// action invocations so far
    pub n: u32,
}

impl RefState {
    pub fn initial() -> RefState {
        RefState { pos: 0, set: 0, ms: 0, done: false, n: 0 }
    }
}

#[derive(Clone, Debug, PartialEq, Eq)]
pub struct RefOutcome {
    pub item: Item,
    pub events: Vec<Event>,
    /// what the scan(s) of this call did, for fault placement, probes and segment accounting
    pub notes: Vec<ScanNote>,
}

#[derive(Clone, Debug, PartialEq, Eq)]
pub enum ScanNote {
    /// a rule fired: [from, to) consumed; `rewound_from` = characters examined beyond `to` (incl.
    /// an offending character or the end-of-input event) when the match was recovered by rewinding
    Fired { rule: u32, set: usize, from: usize, to: usize, eof: bool, rewound_from: Option<usize>, lookahead_to: usize },
    /// nothing matched: [from, to) is skipped by the error
    Failed { set: usize, from: usize, to: usize, eof_read: bool, offender: bool, ctx_starved: bool },
    /// end of input at a lexeme boundary
    Boundary { set: usize, at: usize },
}

enum ScanEnd {
    Fire { ri: usize, end: usize, eof: bool, rewound_from: Option<usize> },
    Boundary,
    Stuck { examined: usize, eof_read: bool, offender: bool, ctx_starved: bool },
}

/// The input as REF sees it: the first `end` characters of `text` are the whole input.
pub struct RefInput<'a> {
    pub text: &'a [char],
    pub end: usize,
    pub locs: &'a LocTable,
    /// record `match_()` text in events
    pub with_text: bool,
}

impl RefProg {
    pub fn new(p: &Program) -> RefProg {
        let mut arena = Arena::new();
        let sets = p
            .sets
            .iter()
            .map(|s| {
                s.rules
                    .iter()
                    .map(|r| RefRule {
                        id: r.id,
                        kind: r.kind,
                        term: arena.compile(&r.re),
                        ctx: r.ctx.as_ref().map(|c| arena.compile(c)),
                    })
                    .collect()
            })
            .collect();
        RefProg { arena, sets, work: 0 }
    }

    /// Some prefix of `text[i..end]·EOF` is in the language of the context.
    fn ctx_ok(&mut self, ctx: Id, inp: &RefInput, i: usize, lookahead: &mut usize) -> bool {
        let mut t = ctx;
        let mut j = i;
        loop {
            if self.arena.is_nullable(t) {
                return true;
            }
            if t == VOID {
                return false;
            }
            self.work += 1;
            if j < inp.end {
                t = self.arena.deriv(t, Some(inp.text[j]));
                j += 1;
                if j > *lookahead {
                    *lookahead = j;
                }
            } else {
                let t2 = self.arena.deriv(t, None);
                return self.arena.is_nullable(t2);
            }
        }
    }

    fn scan(&mut self, inp: &RefInput, pos: usize, set: usize, lookahead: &mut usize) -> ScanEnd {
        let mut alive: Vec<(usize, Id)> =
            self.sets[set].iter().enumerate().map(|(i, r)| (i, r.term)).collect();
        alive.retain(|(_, t)| *t != VOID);
        let mut cand: Option<(usize, usize)> = None;
        let mut i = pos;
        loop {
            self.work += 1;
            if i >= inp.end {
                // the end-of-input event is read here
                for (ri, t) in &alive {
                    let d = self.arena.deriv(*t, None);
                    if self.arena.is_nullable(d) {
                        return ScanEnd::Fire { ri: *ri, end: i, eof: true, rewound_from: None };
                    }
                }
                if i == pos {
                    return ScanEnd::Boundary;
                }
                return match cand {
                    Some((ri, e)) => {
                        ScanEnd::Fire { ri, end: e, eof: false, rewound_from: Some(i + 1) }
                    }
                    None => ScanEnd::Stuck {
                        examined: i,
                        eof_read: true,
                        offender: false,
                        ctx_starved: false,
                    },
                };
            }
            let c = inp.text[i];
            let mut next: Vec<(usize, Id)> = Vec::with_capacity(alive.len());
            for (ri, t) in &alive {
                let d = self.arena.deriv(*t, Some(c));
                if d != VOID {
                    next.push((*ri, d));
                }
            }
            if next.is_empty() {
                return match cand {
                    Some((ri, e)) => {
                        ScanEnd::Fire { ri, end: e, eof: false, rewound_from: Some(i + 1) }
                    }
                    None => ScanEnd::Stuck {
                        examined: i + 1,
                        eof_read: false,
                        offender: true,
                        ctx_starved: false,
                    },
                };
            }
            i += 1;
            alive = next;
            let mut ctx_failed = false;
            for (ri, t) in &alive {
                if self.arena.is_nullable(*t) {
                    let ok = match self.sets[set][*ri].ctx {
                        None => true,
                        Some(c) => self.ctx_ok(c, inp, i, lookahead),
                    };
                    if ok {
                        cand = Some((*ri, i));
                        break;
                    }
                    ctx_failed = true;
                }
            }
            if !alive.iter().any(|(_, t)| self.arena.can_cont(*t)) {
                // saturated: nothing longer is possible
                return match cand {
                    Some((ri, e)) if e == i => {
                        ScanEnd::Fire { ri, end: e, eof: false, rewound_from: None }
                    }
                    Some((ri, e)) => {
                        ScanEnd::Fire { ri, end: e, eof: false, rewound_from: Some(i) }
                    }
                    None => ScanEnd::Stuck {
                        examined: i,
                        eof_read: false,
                        offender: false,
                        ctx_starved: ctx_failed,
                    },
                };
            }
        }
    }

    /// One `next()` call. Returns every (outcome, successor state) the properties allow; more than
    /// one only under relaxation R1.
    pub fn step(
        &mut self,
        st0: &RefState,
        inp: &RefInput,
        cfg: &RunCfg,
    ) -> Vec<(RefOutcome, RefState)> {
        let mut st = st0.clone();
        let mut events: Vec<Event> = vec![];
        let mut notes: Vec<ScanNote> = vec![];
        loop {
            if st.done {
                return vec![(RefOutcome { item: Item::End, events, notes }, st)];
            }
            let mut lookahead = st.pos;
            let (ri, end, eof, rewound_from) = match self.scan(inp, st.pos, st.set, &mut lookahead)
            {
                ScanEnd::Boundary => {
                    notes.push(ScanNote::Boundary { set: st.set, at: st.pos });
                    st.done = true;
                    if st.set == 0 {
                        return vec![(RefOutcome { item: Item::End, events, notes }, st)];
                    }
                    let at = inp.locs.loc(st.ms);
                    st.ms = st.pos;
                    st.set = 0;
                    return vec![(RefOutcome { item: Item::Invalid { at }, events, notes }, st)];
                }
                ScanEnd::Stuck { examined, eof_read, offender, ctx_starved } => {
                    notes.push(ScanNote::Failed {
                        set: st.set,
                        from: st.pos,
                        to: examined,
                        eof_read,
                        offender,
                        ctx_starved,
                    });
                    let at = inp.locs.loc(st.ms);
                    st.pos = examined;
                    st.ms = examined;
                    st.set = 0;
                    st.done = eof_read;
                    let out = RefOutcome { item: Item::Invalid { at }, events, notes };
                    let mut res = vec![(out.clone(), st.clone())];
                    if ctx_starved {
                        // R1: an implementation that reads one more symbol before giving up
                        let mut alt = st.clone();
                        if examined < inp.end {
                            alt.pos = examined + 1;
                            alt.ms = examined + 1;
                        } else {
                            alt.done = true;
                        }
                        res.push((out, alt));
                    }
                    return res;
                }
                ScanEnd::Fire { ri, end, eof, rewound_from } => (ri, end, eof, rewound_from),
            };
            let rule = self.sets[st.set][ri].clone();
            notes.push(ScanNote::Fired {
                rule: rule.id,
                set: st.set,
                from: st.pos,
                to: end,
                eof,
                rewound_from,
                lookahead_to: lookahead,
            });
            st.pos = end;
            if eof {
                st.done = true;
            }
            match rule.kind {
                Kind::Skip => {
                    st.ms = st.pos;
                }
                Kind::Simple => {
                    let item = Item::Tok {
                        start: inp.locs.loc(st.ms),
                        tok: Tok::simple(rule.id),
                        end: inp.locs.loc(st.pos),
                    };
                    st.ms = st.pos;
                    return vec![(RefOutcome { item, events, notes }, st)];
                }
                Kind::Infallible | Kind::Fallible => {
                    st.n += 1;
                    let d = decide(cfg, st.n, rule.id);
                    let here = inp.locs.loc(st.pos);
                    events.push(Event {
                        rule: rule.id,
                        n: st.n,
                        start: inp.locs.loc(st.ms),
                        end: here,
                        peek: if st.pos < inp.end { Some(inp.text[st.pos]) } else { None },
                        text: if inp.with_text {
                            Some(inp.text[st.ms..st.pos].iter().collect())
                        } else {
                            None
                        },
                        dec: d,
                        post_reset: if d.reset { Some((here, here)) } else { None },
                    });
                    if d.reset {
                        st.ms = st.pos;
                    }
                    if let Some(k) = d.switch {
                        st.set = k as usize;
                    }
                    match d.kind {
                        DKind::Continue => {}
                        DKind::Return => {
                            let item = Item::Tok {
                                start: inp.locs.loc(st.ms),
                                tok: Tok::from_action(rule.id, st.n),
                                end: here,
                            };
                            st.ms = st.pos;
                            return vec![(RefOutcome { item, events, notes }, st)];
                        }
                        DKind::Err => {
                            let item = Item::Custom {
                                at: inp.locs.loc(st.ms),
                                err: SimErr { rule: rule.id, n: st.n },
                            };
                            st.ms = st.pos;
                            return vec![(RefOutcome { item, events, notes }, st)];
                        }
                    }
                }
            }
        }
    }

    /// Runs `next()` until the first `End`, following the primary alternative. Used for workload
    /// generation (fault placement, model-guided streams) — never as the oracle of a checked run.
    pub fn trace(&mut self, inp: &RefInput, cfg: &RunCfg, max_calls: usize) -> Vec<(RefOutcome, RefState)> {
        let mut st = RefState::initial();
        let mut out = vec![];
        for _ in 0..max_calls {
            let mut alts = self.step(&st, inp, cfg);
            let (o, s) = alts.remove(0);
            let end = o.item == Item::End;
            st = s.clone();
            out.push((o, s));
            if end {
                break;
            }
        }
        out
    }
}

//! Program IR: a lexer definition as data. Rendered to `lexer!{}` text by `render`, interpreted by
//! the reference model in `refmodel`.

use serde::{Deserialize, Serialize};

#[derive(Clone, Copy, Debug, PartialEq, Eq, Hash, Serialize, Deserialize, PartialOrd, Ord)]
pub enum Builtin {
    AsciiLowercase,
    AsciiUppercase,
    AsciiAlphabetic,
    AsciiDigit,
    AsciiAlphanumeric,
    AsciiWhitespace,
    AsciiPunctuation,
    Ascii,
    Alphabetic,
    Whitespace,
    Lowercase,
}

impl Builtin {
    pub const ALL: [Builtin; 11] = [
        Builtin::AsciiLowercase,
        Builtin::AsciiUppercase,
        Builtin::AsciiAlphabetic,
        Builtin::AsciiDigit,
        Builtin::AsciiAlphanumeric,
        Builtin::AsciiWhitespace,
        Builtin::AsciiPunctuation,
        Builtin::Ascii,
        Builtin::Alphabetic,
        Builtin::Whitespace,
        Builtin::Lowercase,
    ];

    pub fn name(self) -> &'static str {
        match self {
            Builtin::AsciiLowercase => "ascii_lowercase",
            Builtin::AsciiUppercase => "ascii_uppercase",
            Builtin::AsciiAlphabetic => "ascii_alphabetic",
            Builtin::AsciiDigit => "ascii_digit",
            Builtin::AsciiAlphanumeric => "ascii_alphanumeric",
            Builtin::AsciiWhitespace => "ascii_whitespace",
            Builtin::AsciiPunctuation => "ascii_punctuation",
            Builtin::Ascii => "ascii",
            Builtin::Alphabetic => "alphabetic",
            Builtin::Whitespace => "whitespace",
            Builtin::Lowercase => "lowercase",
        }
    }

    /// The Rust predicate the README assigns to the name.
    pub fn contains(self, c: char) -> bool {
        match self {
            Builtin::AsciiLowercase => c.is_ascii_lowercase(),
            Builtin::AsciiUppercase => c.is_ascii_uppercase(),
            Builtin::AsciiAlphabetic => c.is_ascii_alphabetic(),
            Builtin::AsciiDigit => c.is_ascii_digit(),
            Builtin::AsciiAlphanumeric => c.is_ascii_alphanumeric(),
            Builtin::AsciiWhitespace => c.is_ascii_whitespace(),
            Builtin::AsciiPunctuation => c.is_ascii_punctuation(),
            Builtin::Ascii => c.is_ascii(),
            Builtin::Alphabetic => c.is_alphabetic(),
            Builtin::Whitespace => c.is_whitespace(),
            Builtin::Lowercase => c.is_lowercase(),
        }
    }
}

#[derive(Clone, Copy, Debug, PartialEq, Eq, Hash, Serialize, Deserialize, PartialOrd, Ord)]
pub enum SetItem {
    Ch(char),
    Range(char, char),
}

/// A character class expression (the operands `#` accepts).
#[derive(Clone, Debug, PartialEq, Eq, Hash, Serialize, Deserialize, PartialOrd, Ord)]
pub enum Class {
    Ch(char),
    Set(Vec<SetItem>),
    Any,
    Builtin(Builtin),
    Union(Box<Class>, Box<Class>),
    Diff(Box<Class>, Box<Class>),
}

impl Class {
    pub fn contains(&self, c: char) -> bool {
        match self {
            Class::Ch(x) => *x == c,
            Class::Set(items) => items.iter().any(|it| match it {
                SetItem::Ch(x) => *x == c,
                SetItem::Range(a, b) => *a <= c && c <= *b,
            }),
            Class::Any => true,
            Class::Builtin(b) => b.contains(c),
            Class::Union(a, b) => a.contains(c) || b.contains(c),
            Class::Diff(a, b) => a.contains(c) && !b.contains(c),
        }
    }

    /// Exact emptiness over all Unicode scalar values is expensive; the generator only needs "has a
    /// member in the alphabet it draws inputs from", and the well-formedness filter uses
    /// `is_empty_exact` on the (few) classes involving `#`.
    pub fn members_in<'a>(&self, alphabet: &'a [char]) -> Vec<char> {
        alphabet.iter().copied().filter(|c| self.contains(*c)).collect()
    }

    pub fn has_diff(&self) -> bool {
        match self {
            Class::Diff(_, _) => true,
            Class::Union(a, b) => a.has_diff() || b.has_diff(),
            _ => false,
        }
    }

    pub fn is_empty_exact(&self) -> bool {
        match self {
            Class::Ch(_) | Class::Any | Class::Builtin(_) => false,
            Class::Set(items) => !items.iter().any(|it| match it {
                SetItem::Ch(_) => true,
                SetItem::Range(a, b) => a <= b,
            }),
            _ => {
                let mut c = 0u32;
                while c <= char::MAX as u32 {
                    if let Some(ch) = char::from_u32(c) {
                        if self.contains(ch) {
                            return false;
                        }
                    }
                    c += 1;
                }
                true
            }
        }
    }
}

#[derive(Clone, Debug, PartialEq, Eq, Hash, Serialize, Deserialize, PartialOrd, Ord)]
pub enum Re {
    Class(Class),
    Str(Vec<char>),
    Eof,
    Star(Box<Re>),
    Plus(Box<Re>),
    Opt(Box<Re>),
    Cat(Box<Re>, Box<Re>),
    Alt(Box<Re>, Box<Re>),
}

impl Re {
    pub fn ch(c: char) -> Re {
        Re::Class(Class::Ch(c))
    }
    pub fn s(s: &str) -> Re {
        Re::Str(s.chars().collect())
    }
    pub fn any() -> Re {
        Re::Class(Class::Any)
    }
    pub fn range(a: char, b: char) -> Re {
        Re::Class(Class::Set(vec![SetItem::Range(a, b)]))
    }
    pub fn set(items: Vec<SetItem>) -> Re {
        Re::Class(Class::Set(items))
    }
    pub fn cat(a: Re, b: Re) -> Re {
        Re::Cat(Box::new(a), Box::new(b))
    }
    pub fn alt(a: Re, b: Re) -> Re {
        Re::Alt(Box::new(a), Box::new(b))
    }
    pub fn star(a: Re) -> Re {
        Re::Star(Box::new(a))
    }
    pub fn plus(a: Re) -> Re {
        Re::Plus(Box::new(a))
    }
    pub fn opt(a: Re) -> Re {
        Re::Opt(Box::new(a))
    }
    pub fn cats(mut v: Vec<Re>) -> Re {
        let mut acc = v.remove(0);
        for r in v {
            acc = Re::cat(acc, r);
        }
        acc
    }
    pub fn alts(mut v: Vec<Re>) -> Re {
        let mut acc = v.remove(0);
        for r in v {
            acc = Re::alt(acc, r);
        }
        acc
    }

    pub fn size(&self) -> usize {
        match self {
            Re::Class(_) | Re::Eof => 1,
            Re::Str(s) => s.len().max(1),
            Re::Star(a) | Re::Plus(a) | Re::Opt(a) => 1 + a.size(),
            Re::Cat(a, b) | Re::Alt(a, b) => 1 + a.size() + b.size(),
        }
    }

    /// Matches the empty string (with `$` never counting as empty: it needs the end-of-input event).
    pub fn nullable(&self) -> bool {
        match self {
            Re::Class(_) | Re::Eof => false,
            Re::Str(s) => s.is_empty(),
            Re::Star(_) | Re::Opt(_) => true,
            Re::Plus(a) => a.nullable(),
            Re::Cat(a, b) => a.nullable() && b.nullable(),
            Re::Alt(a, b) => a.nullable() || b.nullable(),
        }
    }

    pub fn contains_eof(&self) -> bool {
        match self {
            Re::Eof => true,
            Re::Class(_) | Re::Str(_) => false,
            Re::Star(a) | Re::Plus(a) | Re::Opt(a) => a.contains_eof(),
            Re::Cat(a, b) | Re::Alt(a, b) => a.contains_eof() || b.contains_eof(),
        }
    }

    /// `$` occurs only in tail position (last factor, through `|` and `?`), never under `*`/`+`
    /// and never followed by anything.
    pub fn eof_only_at_tail(&self) -> bool {
        fn go(r: &Re, tail: bool) -> bool {
            match r {
                Re::Eof => tail,
                Re::Class(_) | Re::Str(_) => true,
                Re::Star(a) | Re::Plus(a) => !a.contains_eof(),
                Re::Opt(a) => go(a, tail),
                Re::Cat(a, b) => !a.contains_eof() && go(b, tail),
                Re::Alt(a, b) => go(a, tail) && go(b, tail),
            }
        }
        go(self, true)
    }

    pub fn has_empty_literal_or_class(&self) -> bool {
        match self {
            Re::Eof => false,
            Re::Class(c) => c.is_empty_exact(),
            Re::Str(s) => s.is_empty(),
            Re::Star(a) | Re::Plus(a) | Re::Opt(a) => a.has_empty_literal_or_class(),
            Re::Cat(a, b) | Re::Alt(a, b) => {
                a.has_empty_literal_or_class() || b.has_empty_literal_or_class()
            }
        }
    }
}

#[derive(Clone, Copy, Debug, PartialEq, Eq, Hash, Serialize, Deserialize, PartialOrd, Ord)]
pub enum Kind {
    /// `re,`
    Skip,
    /// `re = tok,`
    Simple,
    /// `re => action,`
    Infallible,
    /// `re =? action,`
    Fallible,
}

#[derive(Clone, Debug, PartialEq, Eq, Hash, Serialize, Deserialize)]
pub struct Rule {
    /// Unique across the whole program (so a logged id names its rule set).
    pub id: u32,
    pub re: Re,
    pub ctx: Option<Re>,
    pub kind: Kind,
}

#[derive(Clone, Debug, PartialEq, Eq, Hash, Serialize, Deserialize)]
pub struct RuleSet {
    pub name: String,
    pub rules: Vec<Rule>,
}

#[derive(Clone, Debug, PartialEq, Eq, Hash, Serialize, Deserialize)]
pub struct Program {
    /// Rule sets in declaration order; `sets[0]` is `Init`. With `unnamed` there is exactly one
    /// set and its rules are written at the top level (no `rule` blocks, no `switch`).
    pub sets: Vec<RuleSet>,
    pub unnamed: bool,
    /// Where the program came from ("seed:issue_16", "gen").
    pub origin: String,
}

impl Program {
    pub fn n_rules(&self) -> usize {
        self.sets.iter().map(|s| s.rules.len()).sum()
    }

    pub fn has_fallible(&self) -> bool {
        self.sets.iter().any(|s| s.rules.iter().any(|r| r.kind == Kind::Fallible))
    }

    pub fn rule(&self, id: u32) -> Option<(usize, &Rule)> {
        for (si, s) in self.sets.iter().enumerate() {
            for r in &s.rules {
                if r.id == id {
                    return Some((si, r));
                }
            }
        }
        None
    }

    pub fn max_rule_id(&self) -> u32 {
        self.sets.iter().flat_map(|s| s.rules.iter()).map(|r| r.id).max().unwrap_or(0)
    }

    /// Re-assigns ids 0.. in declaration order.
    pub fn renumber(&mut self) {
        let mut k = 0;
        for s in &mut self.sets {
            for r in &mut s.rules {
                r.id = k;
                k += 1;
            }
        }
    }

    /// The properties' own precondition, plus the corpus exclusions listed in DESIGN.md §3.1.
    pub fn well_formed(&self) -> Result<(), String> {
        if self.sets.is_empty() {
            return Err("no rule set".into());
        }
        if self.sets[0].name != "Init" {
            return Err("first rule set is not Init".into());
        }
        if self.unnamed && self.sets.len() != 1 {
            return Err("unnamed form has one rule set".into());
        }
        if self.sets[0].rules.is_empty() {
            return Err("Init is empty".into());
        }
        let mut ids = std::collections::BTreeSet::new();
        let mut names = std::collections::BTreeSet::new();
        for s in &self.sets {
            if !names.insert(&s.name) {
                return Err(format!("rule set {} twice", s.name));
            }
            for r in &s.rules {
                if !ids.insert(r.id) {
                    return Err(format!("rule id {} twice", r.id));
                }
                if r.re.nullable() {
                    return Err(format!("rule {} matches the empty string", r.id));
                }
                if r.re.has_empty_literal_or_class() {
                    return Err(format!("rule {} has an empty class or literal", r.id));
                }
                if !r.re.eof_only_at_tail() {
                    return Err(format!("rule {}: `$` not at the tail", r.id));
                }
                if let Some(c) = &r.ctx {
                    if r.re.contains_eof() {
                        return Err(format!("rule {}: right context on a `$` rule", r.id));
                    }
                    if c.has_empty_literal_or_class() {
                        return Err(format!("rule {}: empty class or literal in context", r.id));
                    }
                    if !c.eof_only_at_tail() {
                        return Err(format!("rule {}: `$` not at the tail of the context", r.id));
                    }
                }
                if let Err(e) = no_repeated_set_char(&r.re) {
                    return Err(format!("rule {}: {}", r.id, e));
                }
                if let Some(c) = &r.ctx {
                    if let Err(e) = no_repeated_set_char(c) {
                        return Err(format!("rule {} ctx: {}", r.id, e));
                    }
                }
            }
        }
        Ok(())
    }
}

/// Corpus exclusion: a bracket set that repeats a literal character makes the pinned macro panic
/// (`add_char_transition`), which is C12's subject, not something a corpus program may contain.
fn no_repeated_set_char(re: &Re) -> Result<(), String> {
    fn class(c: &Class) -> Result<(), String> {
        match c {
            Class::Set(items) => {
                let mut seen = std::collections::BTreeSet::new();
                for it in items {
                    if let SetItem::Ch(x) = it {
                        if !seen.insert(*x) {
                            return Err(format!("bracket set repeats {:?}", x));
                        }
                    }
                }
                Ok(())
            }
            Class::Union(a, b) | Class::Diff(a, b) => {
                class(a)?;
                class(b)
            }
            _ => Ok(()),
        }
    }
    match re {
        Re::Class(c) => class(c),
        Re::Str(_) | Re::Eof => Ok(()),
        Re::Star(a) | Re::Plus(a) | Re::Opt(a) => no_repeated_set_char(a),
        Re::Cat(a, b) | Re::Alt(a, b) => {
            no_repeated_set_char(a)?;
            no_repeated_set_char(b)
        }
    }
}

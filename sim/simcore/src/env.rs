//! The simulated semantic actions' side: user state (`Env`), the decision function, the event log.
//!
//! `Env` is the lexer's user state. It is a plain value: cloning a lexer clones it, so a forked
//! replica carries its own invocation counter and takes exactly the decisions its parent would
//! have taken. The only shared thing is the immutable run configuration.

use crate::ir::{Kind, Program};
use crate::loc::SLoc;
use crate::rng::{mix, Rng};
use serde::{Deserialize, Serialize};
use std::collections::BTreeMap;
use std::rc::Rc;

#[derive(Clone, Copy, Debug, PartialEq, Eq, Hash, Serialize, Deserialize)]
pub enum DKind {
    Continue,
    Return,
    Err,
}

#[derive(Clone, Copy, Debug, PartialEq, Eq, Hash, Serialize, Deserialize)]
pub struct Decision {
    pub kind: DKind,
    /// call `reset_match()` before leaving the action
    pub reset: bool,
    /// switch to this rule set (index into `Program::sets`)
    pub switch: Option<u8>,
    /// use `switch(..)` followed by `return_`/`continue_` instead of `switch_and_return`/`switch`
    pub separate: bool,
    /// invocation number of the action that took this decision (1-based); filled by `decide`
    pub n: u32,
}

impl Decision {
    pub const PLAIN_RETURN: Decision =
        Decision { kind: DKind::Return, reset: false, switch: None, separate: false, n: 0 };
}

#[derive(Clone, Copy, Debug, PartialEq, Eq, Hash, Serialize, Deserialize)]
pub enum Profile {
    Plain,
    Accumulate,
    Tour,
    Fallible,
    Chaos,
}

impl Profile {
    pub const ALL: [Profile; 5] =
        [Profile::Plain, Profile::Accumulate, Profile::Tour, Profile::Fallible, Profile::Chaos];
}

/// Token payload: which rule produced it and at which action invocation (0 for `re = tok`).
#[derive(Clone, Copy, Debug, PartialEq, Eq, Hash, Serialize, Deserialize)]
pub struct Tok {
    pub rule: u32,
    pub n: u32,
}

impl Tok {
    pub fn simple(rule: u32) -> Tok {
        Tok { rule, n: 0 }
    }
    pub fn from_action(rule: u32, n: u32) -> Tok {
        Tok { rule, n }
    }
}

#[derive(Clone, Copy, Debug, PartialEq, Eq, Hash, Serialize, Deserialize)]
pub struct SimErr {
    pub rule: u32,
    pub n: u32,
}

pub trait IntoSimErr {
    fn into_sim(self) -> SimErr;
}
impl IntoSimErr for SimErr {
    fn into_sim(self) -> SimErr {
        self
    }
}
impl IntoSimErr for std::convert::Infallible {
    fn into_sim(self) -> SimErr {
        match self {}
    }
}

/// One semantic-action invocation as the action itself observed it.
#[derive(Clone, Debug, PartialEq, Eq, Hash, Serialize, Deserialize)]
pub struct Event {
    pub rule: u32,
    pub n: u32,
    pub start: SLoc,
    pub end: SLoc,
    pub peek: Option<char>,
    /// `match_()` (string input only)
    pub text: Option<String>,
    pub dec: Decision,
    /// `match_loc()` right after `reset_match()` when the decision resets
    pub post_reset: Option<(SLoc, SLoc)>,
}

/// Immutable per-run configuration shared by all replicas of a run.
#[derive(Debug)]
pub struct RunCfg {
    pub decide_seed: u64,
    pub profile: Profile,
    pub n_sets: u8,
    pub named: bool,
    /// kind of every rule, by rule id
    pub kinds: BTreeMap<u32, Kind>,
    /// explicit decisions (replay files, fault plans `action_err@k`, minimised runs)
    pub overrides: BTreeMap<u32, Decision>,
    /// actions may call `match_()` (string input)
    pub has_text: bool,
    /// action invocations allowed per `next()` call before the run is declared stuck
    pub action_budget: u64,
}

impl RunCfg {
    pub fn new(
        prog: &Program,
        decide_seed: u64,
        profile: Profile,
        overrides: BTreeMap<u32, Decision>,
        has_text: bool,
        action_budget: u64,
    ) -> RunCfg {
        let mut kinds = BTreeMap::new();
        for s in &prog.sets {
            for r in &s.rules {
                kinds.insert(r.id, r.kind);
            }
        }
        RunCfg {
            decide_seed,
            profile,
            n_sets: prog.sets.len() as u8,
            named: !prog.unnamed,
            kinds,
            overrides,
            has_text,
            action_budget,
        }
    }
}

/// Pure decision function: (run seed, invocation number, rule) -> decision. Evaluated by the
/// action inside the real lexer and, independently, by the reference model.
pub fn decide(cfg: &RunCfg, n: u32, rule: u32) -> Decision {
    let fallible = cfg.kinds.get(&rule) == Some(&Kind::Fallible);
    let mut d = match cfg.overrides.get(&n) {
        Some(d) => *d,
        None => {
            let mut r = Rng::new(mix(mix(cfg.decide_seed, n as u64), rule as u64));
            // weights: [continue, return, err], reset %, switch %
            let (w, reset_pct, switch_pct): ([u32; 3], u64, u64) = match cfg.profile {
                Profile::Plain => ([10, 85, 5], 10, 10),
                Profile::Accumulate => ([60, 35, 5], 25, 10),
                Profile::Tour => ([30, 65, 5], 30, 60),
                Profile::Fallible => ([20, 45, 35], 30, 15),
                Profile::Chaos => ([34, 33, 33], 50, 40),
            };
            let kind = match r.weighted(&w) {
                0 => DKind::Continue,
                1 => DKind::Return,
                _ => DKind::Err,
            };
            let reset = r.chance(reset_pct, 100);
            let switch = if r.chance(switch_pct, 100) && cfg.n_sets > 0 {
                Some(r.below(cfg.n_sets as u64) as u8)
            } else {
                None
            };
            let separate = r.chance(1, 3);
            Decision { kind, reset, switch, separate, n }
        }
    };
    d.n = n;
    if d.kind == DKind::Err && !fallible {
        d.kind = DKind::Return;
    }
    if !cfg.named {
        d.switch = None;
    }
    if let Some(k) = d.switch {
        if k >= cfg.n_sets {
            d.switch = Some(k % cfg.n_sets.max(1));
        }
    }
    d
}

/// Unwind payload used when an action or the input source exceeds the per-call step budget.
pub struct BudgetExceeded;

#[derive(Clone, Debug, Default)]
pub struct Env {
    pub cfg: Option<Rc<RunCfg>>,
    /// number of action invocations so far in this replica's lineage
    pub n: u32,
    /// hash chain over every invocation; changed only inside `on_action`
    pub canary: u64,
    /// events since the driver last drained the log
    pub log: Vec<Event>,
    /// invocations since the driver last reset the counter (per `next()` call)
    pub actions_this_call: u64,
}

impl Env {
    pub fn new(cfg: Rc<RunCfg>) -> Env {
        Env { cfg: Some(cfg), n: 0, canary: 0x5eed_cafe, log: Vec::new(), actions_this_call: 0 }
    }

    pub fn wants_text(&self) -> bool {
        self.cfg.as_ref().map(|c| c.has_text).unwrap_or(false)
    }

    pub fn on_action(
        &mut self,
        rule: u32,
        start: (u32, u32, usize),
        end: (u32, u32, usize),
        peek: Option<char>,
        text: Option<String>,
    ) -> Decision {
        let cfg = match &self.cfg {
            Some(c) => c.clone(),
            // The user state was replaced by a default value behind the actions' back.
            None => std::panic::panic_any(UserStateLost),
        };
        self.n += 1;
        self.actions_this_call += 1;
        if self.actions_this_call > cfg.action_budget {
            std::panic::panic_any(BudgetExceeded);
        }
        let dec = decide(&cfg, self.n, rule);
        self.canary = next_canary(self.canary, rule, self.n);
        self.log.push(Event {
            rule,
            n: self.n,
            start: SLoc::from_parts(start.0, start.1, start.2),
            end: SLoc::from_parts(end.0, end.1, end.2),
            peek,
            text,
            dec,
            post_reset: None,
        });
        dec
    }

    pub fn note_post_reset(&mut self, start: (u32, u32, usize), end: (u32, u32, usize)) {
        if let Some(ev) = self.log.last_mut() {
            ev.post_reset = Some((
                SLoc::from_parts(start.0, start.1, start.2),
                SLoc::from_parts(end.0, end.1, end.2),
            ));
        }
    }

    /// (n, canary) — compared by the driver before/after every call.
    pub fn fingerprint(&self) -> (u32, u64, bool) {
        (self.n, self.canary, self.cfg.is_some())
    }
}

pub struct UserStateLost;

pub fn next_canary(prev: u64, rule: u32, n: u32) -> u64 {
    mix(mix(prev, rule as u64), n as u64)
}

//! Deterministic (unseeded) hashing for the harness' own tables.

use std::collections::{HashMap, HashSet};
use std::hash::{BuildHasherDefault, Hasher};

#[derive(Default, Clone, Copy)]
pub struct FxHasher {
    hash: u64,
}

const K: u64 = 0x51_7c_c1_b7_27_22_0a_95;

impl FxHasher {
    #[inline]
    fn add(&mut self, w: u64) {
        self.hash = (self.hash.rotate_left(5) ^ w).wrapping_mul(K);
    }
}

impl Hasher for FxHasher {
    fn write(&mut self, bytes: &[u8]) {
        let mut b = bytes;
        while b.len() >= 8 {
            self.add(u64::from_le_bytes([b[0], b[1], b[2], b[3], b[4], b[5], b[6], b[7]]));
            b = &b[8..];
        }
        for x in b {
            self.add(*x as u64);
        }
    }
    fn write_u8(&mut self, i: u8) {
        self.add(i as u64)
    }
    fn write_u32(&mut self, i: u32) {
        self.add(i as u64)
    }
    fn write_u64(&mut self, i: u64) {
        self.add(i)
    }
    fn write_usize(&mut self, i: usize) {
        self.add(i as u64)
    }
    fn finish(&self) -> u64 {
        self.hash
    }
}

pub type FxBuild = BuildHasherDefault<FxHasher>;
pub type FxMap<K, V> = HashMap<K, V, FxBuild>;
pub type FxSet<K> = HashSet<K, FxBuild>;

pub fn hash_of<T: std::hash::Hash>(t: &T) -> u64 {
    let mut h = FxHasher::default();
    t.hash(&mut h);
    // final avalanche so that low bits are usable
    crate::rng::mix(h.finish(), 0x1234_5678)
}

//! What the simulator sees of a generated lexer: a replica that can be stepped and forked.

use crate::env::{Env, SimErr, Tok};
use crate::loc::SLoc;
use serde::{Deserialize, Serialize};

#[derive(Clone, Debug, PartialEq, Eq, Hash, Serialize, Deserialize)]
pub enum Item {
    /// `None`
    End,
    Tok { start: SLoc, tok: Tok, end: SLoc },
    Invalid { at: SLoc },
    Custom { at: SLoc, err: SimErr },
    /// `next()` unwound
    Panic(String),
    /// the per-call step budget (source reads + action invocations) was exceeded
    NoProgress,
}

#[derive(Clone, Copy, Debug, PartialEq, Eq, Hash, Serialize, Deserialize)]
pub enum Ctor {
    /// `new(&str)`, state installed afterwards
    New,
    /// `new_with_state(&str, env)`
    NewWithState,
    /// `new_from_iter(str.chars())`, state installed afterwards
    FromIter,
    /// `new_from_iter_with_state(str.chars(), env)`
    FromIterWithState,
    /// `new_from_iter_with_state(SimSource, env)`
    FromSim,
}

impl Ctor {
    pub const ALL: [Ctor; 5] =
        [Ctor::New, Ctor::NewWithState, Ctor::FromIter, Ctor::FromIterWithState, Ctor::FromSim];

    /// `match_()` is available.
    pub fn has_text(self) -> bool {
        matches!(self, Ctor::New | Ctor::NewWithState)
    }
}

pub trait Rep<'r> {
    /// One raw `next()` call, mapped into simulator types. May unwind.
    fn step(&mut self) -> Item;
    fn env(&mut self) -> &mut Env;
    fn fork(&self) -> Box<dyn Rep<'r> + 'r>;
}

/// Constructor of a program's lexer, as emitted by `glue!`.
pub type MakeFn =
    for<'a> fn(Ctor, &'a str, crate::source::SimSource, Env) -> Box<dyn Rep<'a> + 'a>;

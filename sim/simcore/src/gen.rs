//! Program corpus: hand-transcribed seed programs and the seeded random generator (DESIGN.md §3.1).

use crate::ir::*;
use crate::rng::Rng;

/// Characters inputs and literals are drawn from. `Z` is the "alien": no literal mentions it.
pub const ALPHABET: [char; 11] =
    ['a', 'b', 'c', ' ', '\n', '\t', 'é', '世', '😀', '\u{301}', '\u{200B}'];
pub const ALIEN: char = 'Z';

pub fn full_alphabet() -> Vec<char> {
    let mut v = ALPHABET.to_vec();
    v.push(ALIEN);
    v
}

#[derive(Clone, Debug)]
pub struct Knobs {
    pub max_sets: usize,
    pub max_rules: usize,
    pub max_depth: usize,
    /// percent of rules derived from the previous rule of the set (prefix-related: rewinds)
    pub prefix_pct: u64,
    pub eof_pct: u64,
    pub ctx_pct: u64,
    pub fallible_pct: u64,
    pub unicode_pct: u64,
}

impl Knobs {
    /// Swarm: every corpus crate draws its own knob values.
    pub fn draw(r: &mut Rng) -> Knobs {
        Knobs {
            max_sets: *r.pick(&[1, 2, 3, 3, 4, 6]),
            max_rules: *r.pick(&[2, 3, 4, 5, 5]),
            max_depth: *r.pick(&[2, 3, 3, 4]),
            prefix_pct: *r.pick(&[10, 30, 50, 70]),
            eof_pct: *r.pick(&[0, 5, 10, 20]),
            ctx_pct: *r.pick(&[0, 10, 15, 30]),
            fallible_pct: *r.pick(&[0, 10, 20, 40]),
            unicode_pct: *r.pick(&[5, 15, 30]),
        }
    }
}

fn lit_char(r: &mut Rng, k: &Knobs) -> char {
    if r.chance(k.unicode_pct, 100) {
        *r.pick(&['é', '世', '😀', '\u{301}', '\u{200B}', '\n', '\t'])
    } else {
        *r.pick(&['a', 'a', 'b', 'b', 'c', ' '])
    }
}

fn gen_set_class(r: &mut Rng, k: &Knobs) -> Class {
    let n = r.range(1, 3);
    let mut items: Vec<SetItem> = vec![];
    for _ in 0..n {
        if r.chance(1, 2) {
            let c = lit_char(r, k);
            if !items.contains(&SetItem::Ch(c)) {
                items.push(SetItem::Ch(c));
            }
        } else {
            let ranges: [(char, char); 9] = [
                ('a', 'c'),
                ('a', 'b'),
                ('b', 'c'),
                ('a', 'z'),
                (' ', 'c'),
                ('\t', '\n'),
                ('à', 'ÿ'),
                ('一', '鿿'),
                ('\u{300}', '\u{36f}'),
            ];
            let (a, b) = *r.pick(&ranges);
            items.push(SetItem::Range(a, b));
        }
    }
    if items.is_empty() {
        items.push(SetItem::Ch('a'));
    }
    Class::Set(items)
}

fn gen_class(r: &mut Rng, k: &Knobs, depth: usize) -> Class {
    match r.below(100) {
        0..=39 => Class::Ch(lit_char(r, k)),
        40..=69 => gen_set_class(r, k),
        70..=76 => Class::Any,
        77..=84 => Class::Builtin(*r.pick(&Builtin::ALL)),
        85..=91 if depth > 0 => {
            Class::Union(Box::new(gen_class(r, k, depth - 1)), Box::new(gen_class(r, k, depth - 1)))
        }
        92..=99 if depth > 0 => {
            // `#`: keep only differences that leave something in the alphabet
            for _ in 0..8 {
                let a = match r.below(4) {
                    0 => Class::Any,
                    1 => Class::Builtin(*r.pick(&Builtin::ALL)),
                    _ => gen_set_class(r, k),
                };
                let b = gen_class(r, k, depth - 1);
                let d = Class::Diff(Box::new(a), Box::new(b));
                if !d.members_in(&ALPHABET).is_empty() {
                    return d;
                }
            }
            Class::Ch(lit_char(r, k))
        }
        _ => Class::Ch(lit_char(r, k)),
    }
}

fn gen_str(r: &mut Rng, k: &Knobs) -> Re {
    let n = r.range(1, 4);
    Re::Str((0..n).map(|_| lit_char(r, k)).collect())
}

pub fn gen_re(r: &mut Rng, k: &Knobs, depth: usize) -> Re {
    if depth == 0 {
        return match r.below(10) {
            0..=5 => Re::Class(gen_class(r, k, 1)),
            _ => gen_str(r, k),
        };
    }
    match r.below(100) {
        0..=19 => Re::Class(gen_class(r, k, 1)),
        20..=29 => gen_str(r, k),
        30..=54 => Re::cat(gen_re(r, k, depth - 1), gen_re(r, k, depth - 1)),
        55..=69 => Re::alt(gen_re(r, k, depth - 1), gen_re(r, k, depth - 1)),
        70..=79 => Re::star(gen_re(r, k, depth - 1)),
        80..=89 => Re::plus(gen_re(r, k, depth - 1)),
        _ => Re::opt(gen_re(r, k, depth - 1)),
    }
}

fn non_nullable(r: &mut Rng, k: &Knobs, re: Re) -> Re {
    if !re.nullable() {
        return re;
    }
    if r.chance(1, 2) {
        Re::cat(Re::ch(lit_char(r, k)), re)
    } else {
        Re::cat(re, Re::ch(lit_char(r, k)))
    }
}

fn gen_kind(r: &mut Rng, k: &Knobs) -> Kind {
    if r.chance(k.fallible_pct, 100) {
        return Kind::Fallible;
    }
    match r.below(100) {
        0..=14 => Kind::Skip,
        15..=39 => Kind::Simple,
        _ => Kind::Infallible,
    }
}

fn gen_rule(r: &mut Rng, k: &Knobs, prev: Option<&Rule>) -> Rule {
    let depth = r.range(0, k.max_depth);
    let mut re = match prev {
        Some(p) if r.chance(k.prefix_pct, 100) && !p.re.contains_eof() => {
            // prefix-related to the previous rule: x -> x y | x+ y | x y? ...
            let base = p.re.clone();
            match r.below(5) {
                0 => Re::cat(base, gen_re(r, k, depth.min(1))),
                1 => Re::cat(Re::plus(base), gen_re(r, k, 0)),
                2 => Re::cat(base.clone(), Re::cat(gen_re(r, k, 0), base)),
                3 => Re::cat(base, Re::star(gen_re(r, k, 0))),
                _ => Re::cat(Re::cat(base, gen_re(r, k, 0)), gen_re(r, k, 0)),
            }
        }
        _ => gen_re(r, k, depth),
    };
    re = non_nullable(r, k, re);
    let mut ctx = None;
    if r.chance(k.eof_pct, 100) {
        re = match r.below(4) {
            0 => Re::Eof,
            1 => Re::cat(re, Re::opt(Re::Eof)),
            _ => Re::cat(re, Re::Eof),
        };
        if re.nullable() {
            re = Re::Eof;
        }
    } else if r.chance(k.ctx_pct, 100) {
        let c = match r.below(6) {
            0 => Re::Eof,
            1 => Re::cat(gen_re(r, k, 1), Re::Eof),
            2 => Re::Class(gen_class(r, k, 1)),
            3 => Re::alt(Re::Class(gen_class(r, k, 0)), Re::Eof),
            _ => gen_re(r, k, 2),
        };
        ctx = Some(c);
    }
    Rule { id: 0, re, ctx, kind: gen_kind(r, k) }
}

const SET_NAMES: [&str; 6] = ["Init", "S1", "S2", "S3", "S4", "S5"];

pub fn gen_program(r: &mut Rng, k: &Knobs) -> Program {
    for _ in 0..200 {
        let n_sets = r.range(1, k.max_sets);
        let unnamed = n_sets == 1 && r.chance(2, 5);
        let mut sets = vec![];
        for si in 0..n_sets {
            let n_rules = if si == 0 {
                r.range(1, k.max_rules)
            } else if r.chance(1, 10) {
                0
            } else {
                r.range(1, k.max_rules)
            };
            let mut rules: Vec<Rule> = vec![];
            for _ in 0..n_rules {
                let rule = gen_rule(r, k, rules.last());
                rules.push(rule);
            }
            sets.push(RuleSet { name: SET_NAMES[si].to_string(), rules });
        }
        let mut p = Program { sets, unnamed, origin: "gen".into() };
        p.renumber();
        if p.well_formed().is_ok() && complexity_ok(&p) {
            return p;
        }
    }
    // practically unreachable; keep the corpus size exact anyway
    let mut p = Program {
        sets: vec![RuleSet {
            name: "Init".into(),
            rules: vec![Rule { id: 0, re: Re::ch('a'), ctx: None, kind: Kind::Infallible }],
        }],
        unnamed: true,
        origin: "gen:fallback".into(),
    };
    p.renumber();
    p
}

/// Keeps expansion + rustc per program in the 0.1-0.2 s range.
fn complexity_ok(p: &Program) -> bool {
    let total: usize = p
        .sets
        .iter()
        .flat_map(|s| s.rules.iter())
        .map(|r| r.re.size() + r.ctx.as_ref().map(|c| c.size()).unwrap_or(0))
        .sum();
    total <= 90
}

// ---------------------------------------------------------------------------------------------
// Seed corpus: shapes transcribed from the repository's own tests and README, with the simulated
// actions in place of the hand-written ones.

fn rl(re: Re, kind: Kind) -> Rule {
    Rule { id: 0, re, ctx: None, kind }
}
fn rc(re: Re, ctx: Re, kind: Kind) -> Rule {
    Rule { id: 0, re, ctx: Some(ctx), kind }
}
fn set(name: &str, rules: Vec<Rule>) -> RuleSet {
    RuleSet { name: name.into(), rules }
}
fn prog(origin: &str, unnamed: bool, sets: Vec<RuleSet>) -> Program {
    let mut p = Program { sets, unnamed, origin: format!("seed:{}", origin) };
    p.renumber();
    p
}
fn chars(s: &str) -> Class {
    Class::Set(s.chars().map(SetItem::Ch).collect())
}

pub fn seed_corpus() -> Vec<Program> {
    use Kind::*;
    let ws = || Re::plus(Re::Class(chars(" \t\n")));
    let lower = || Re::range('a', 'z');
    let mut v = vec![];

    // README: whitespace skip + identifier
    v.push(prog(
        "readme_1",
        false,
        vec![set(
            "Init",
            vec![
                rl(ws(), Skip),
                rl(
                    Re::cat(
                        lower(),
                        Re::star(Re::Class(Class::Union(
                            Box::new(Class::Set(vec![SetItem::Range('a', 'z')])),
                            Box::new(Class::Set(vec![
                                SetItem::Range('A', 'Z'),
                                SetItem::Range('0', '9'),
                                SetItem::Ch('-'),
                                SetItem::Ch('_'),
                            ])),
                        ))),
                    ),
                    Infallible,
                ),
            ],
        )],
    ));
    // README: stateful counter
    v.push(prog(
        "readme_2",
        false,
        vec![
            set(
                "Init",
                vec![rl(Re::Class(Class::Builtin(Builtin::AsciiWhitespace)), Skip), rl(Re::ch('a'), Infallible)],
            ),
            set("S1", vec![rl(Re::ch('b'), Infallible), rl(Re::ch('a'), Infallible)]),
        ],
    ));
    // DESIGN §6.3 (1) / C01's example: wrong "no rewind needed" on `bbabx`
    v.push(prog(
        "bbabx",
        true,
        vec![set(
            "Init",
            vec![
                rl(
                    Re::cats(vec![
                        Re::range('b', 'c'),
                        Re::s("bab"),
                        Re::alt(Re::range('c', 'e'), Re::s("ab")),
                    ]),
                    Infallible,
                ),
                rl(Re::ch('b'), Infallible),
                rl(Re::ch('a'), Infallible),
                rl(Re::cat(Re::s("cbaa"), Re::range('b', 'c')), Infallible),
            ],
        )],
    ));
    // C12's example shape (loops the pinned macro): kept out of the seed corpus on purpose.
    // failure_confusion_1
    v.push(prog(
        "failure_confusion_1",
        true,
        vec![set(
            "Init",
            vec![rl(Re::ch('b'), Infallible), rl(Re::s("ab"), Infallible), rl(Re::any(), Infallible)],
        )],
    ));
    // failure_confusion_2: nested comments
    v.push(prog(
        "failure_confusion_2",
        false,
        vec![
            set("Init", vec![rl(Re::ch(' '), Skip), rl(Re::s("ab"), Infallible)]),
            set("S1", vec![rl(Re::s("ab"), Infallible), rl(Re::s("ba"), Infallible), rl(Re::any(), Skip)]),
        ],
    ));
    // failure_confusion_3_1 / 4
    v.push(prog(
        "failure_confusion_3_1",
        true,
        vec![set("Init", vec![rl(Re::ch(' '), Simple), rl(Re::s("ab"), Simple), rl(Re::any(), Simple)])],
    ));
    v.push(prog(
        "failure_confusion_3_2",
        true,
        vec![set(
            "Init",
            vec![rl(Re::plus(Re::Class(Class::Builtin(Builtin::AsciiLowercase))), Simple), rl(Re::ch(' '), Simple)],
        )],
    ));
    v.push(prog(
        "failure_confusion_4",
        true,
        vec![set(
            "Init",
            vec![rl(Re::ch(' '), Skip), rl(Re::s("aaa"), Simple), rl(Re::s("aa"), Simple), rl(Re::any(), Simple)],
        )],
    ));
    // continue_confusion_1 / 2
    v.push(prog("continue_confusion_1", true, vec![set("Init", vec![rl(Re::any(), Skip)])]));
    v.push(prog(
        "continue_confusion_2",
        false,
        vec![set("Init", vec![rl(Re::any(), Infallible)]), set("S1", vec![rl(Re::any(), Skip)])],
    ));
    // return_should_reset_match
    v.push(prog(
        "return_should_reset_match",
        false,
        vec![set("Init", vec![rl(Re::s("aaa"), Infallible)]), set("S1", vec![rl(Re::s("bbb"), Infallible)])],
    ));
    // issue_16_backtracking_1 / 2, issue_16
    v.push(prog(
        "issue_16_backtracking_1",
        true,
        vec![set(
            "Init",
            vec![rl(Re::cat(Re::plus(Re::ch('a')), Re::ch('b')), Infallible), rl(Re::ch('a'), Infallible)],
        )],
    ));
    v.push(prog(
        "issue_16_backtracking_2",
        true,
        vec![set(
            "Init",
            vec![rl(Re::s("abcabc"), Infallible), rl(Re::s("abc"), Infallible), rl(Re::s("aba"), Infallible)],
        )],
    ));
    v.push(prog(
        "issue_16",
        true,
        vec![set(
            "Init",
            vec![
                rl(Re::cat(Re::s("ab"), Re::plus(Re::ch('c'))), Infallible),
                rl(Re::ch('a'), Simple),
                rl(Re::ch('b'), Simple),
                rl(Re::ch(' '), Skip),
            ],
        )],
    ));
    // end_of_input_handling
    v.push(prog(
        "end_of_input_handling",
        false,
        vec![
            set("Init", vec![rl(Re::ch('a'), Infallible)]),
            set("S1", vec![rl(Re::Eof, Skip), rl(Re::ch('a'), Infallible)]),
        ],
    ));
    // empty_rule_simpification_issue_27 (empty rule set last)
    v.push(prog(
        "issue_27",
        false,
        vec![
            set("Init", vec![rl(Re::s("ab"), Infallible), rl(Re::ch('a'), Infallible)]),
            set("S1", vec![rl(Re::any(), Infallible)]),
            set("S2", vec![]),
        ],
    ));
    // range_any_overlap_issue_31
    v.push(prog(
        "issue_31",
        true,
        vec![set(
            "Init",
            vec![
                rl(Re::cats(vec![Re::ch('b'), Re::any(), Re::ch('b')]), Simple),
                rl(Re::cat(Re::ch('b'), Re::plus(Re::range('a', 'z'))), Simple),
            ],
        )],
    ));
    // failure_should_reset_state_issue_48 / DESIGN §6.3 (3): `sxiii`
    v.push(prog(
        "issue_48",
        false,
        vec![set("Init", vec![rl(Re::ch('a'), Infallible)]), set("S1", vec![rl(Re::ch('b'), Infallible)])],
    ));
    v.push(prog(
        "recovery_sets",
        false,
        vec![
            set("Init", vec![rl(Re::ch('a'), Infallible), rl(Re::ch('c'), Infallible)]),
            set("S1", vec![rl(Re::ch('b'), Infallible), rl(Re::ch('c'), Simple)]),
            set("S2", vec![rl(Re::s("ab"), Fallible), rl(Re::ch('c'), Infallible)]),
        ],
    ));
    // DESIGN §6.3 (2): Custom error location after an accumulated match
    v.push(prog(
        "custom_err_loc",
        true,
        vec![set(
            "Init",
            vec![rl(Re::ch(' '), Skip), rl(Re::s("abc"), Fallible), rl(Re::ch('a'), Fallible), rl(Re::ch('b'), Infallible)],
        )],
    ));
    // DESIGN §6.3 (4): `#` removing a range that swallows an existing one
    v.push(prog(
        "diff_swallow",
        true,
        vec![set(
            "Init",
            vec![
                rl(
                    Re::Class(Class::Diff(
                        Box::new(Class::Set(vec![SetItem::Range('c', 'é'), SetItem::Range('a', '世')])),
                        Box::new(Class::Set(vec![SetItem::Range('\t', 'é')])),
                    )),
                    Infallible,
                ),
                rl(Re::ch(' '), Skip),
            ],
        )],
    ));
    // diff_1..4 shapes
    v.push(prog(
        "diff_1",
        true,
        vec![set(
            "Init",
            vec![
                rl(Re::plus(Re::Class(Class::Diff(Box::new(Class::Any), Box::new(chars("a "))))), Infallible),
                rl(Re::ch(' '), Skip),
                rl(Re::ch('a'), Simple),
            ],
        )],
    ));
    v.push(prog(
        "diff_2",
        true,
        vec![set(
            "Init",
            vec![
                rl(
                    Re::plus(Re::Class(Class::Diff(
                        Box::new(Class::Diff(
                            Box::new(Class::Set(vec![SetItem::Range('a', 'z')])),
                            Box::new(Class::Ch('b')),
                        )),
                        Box::new(Class::Ch('c')),
                    ))),
                    Infallible,
                ),
                rl(Re::Class(chars("bc ")), Simple),
            ],
        )],
    ));
    // end_of_input_transition_1..3, end_of_input_multiple_states
    v.push(prog(
        "eof_1",
        true,
        vec![set("Init", vec![rl(Re::Eof, Simple), rl(Re::ch('a'), Simple)])],
    ));
    v.push(prog(
        "eof_2",
        true,
        vec![set(
            "Init",
            vec![rl(Re::cat(Re::plus(Re::ch('a')), Re::Eof), Infallible), rl(Re::ch('a'), Infallible), rl(Re::ch('b'), Skip)],
        )],
    ));
    v.push(prog(
        "eof_3",
        false,
        vec![
            set("Init", vec![rl(Re::ch('a'), Infallible), rl(Re::Eof, Infallible)]),
            set("S1", vec![rl(Re::ch('b'), Infallible), rl(Re::cat(Re::ch('b'), Re::Eof), Fallible)]),
            set("S2", vec![rl(Re::Eof, Infallible), rl(Re::any(), Skip)]),
        ],
    ));
    v.push(prog(
        "eof_pref",
        true,
        vec![set(
            "Init",
            vec![rl(Re::ch('a'), Infallible), rl(Re::cat(Re::ch('a'), Re::Eof), Infallible), rl(Re::ch(' '), Skip)],
        )],
    ));
    // right_ctx_1..4, rust_float, single-line comment, ligature shapes
    v.push(prog(
        "right_ctx_1",
        true,
        vec![set("Init", vec![rc(Re::ch('a'), Re::ch('a'), Simple)])],
    ));
    v.push(prog(
        "right_ctx_2",
        true,
        vec![set(
            "Init",
            vec![rc(Re::ch('a'), Re::Class(Class::Diff(Box::new(Class::Any), Box::new(Class::Ch('b')))), Simple), rl(Re::ch('b'), Skip)],
        )],
    ));
    // Shape taken from seeded change C09-m3 (DESIGN.md §9.3): a state with an accepting and a
    // non-accepting predecessor (after "ab" / "bb"), and a context rule sharing a prefix with a
    // longer rule - failures here go through backtrack() with and without a saved match.
    v.push(prog(
        "shared_suffix_and_ctx",
        true,
        vec![set(
            "Init",
            vec![
                rl(Re::ch('a'), Simple),
                rl(
                    Re::cat(Re::alt(Re::ch('a'), Re::Class(Class::Set(vec![SetItem::Range('b', 'c')]))), Re::s("bca")),
                    Infallible,
                ),
                rc(Re::ch('é'), Re::ch('c'), Simple),
                rl(Re::s("é世😀"), Infallible),
            ],
        )],
    ));
    v.push(prog(
        "right_ctx_3",
        true,
        vec![set("Init", vec![rc(Re::ch('a'), Re::Eof, Infallible), rl(Re::ch('a'), Infallible), rl(Re::ch(' '), Skip)])],
    ));
    v.push(prog(
        "right_ctx_4",
        true,
        vec![set(
            "Init",
            vec![
                rc(Re::ch('a'), Re::ch('b'), Infallible),
                rc(Re::ch('a'), Re::ch('c'), Infallible),
                rl(Re::plus(Re::Class(chars("bc"))), Skip),
                rl(Re::s("aa"), Infallible),
            ],
        )],
    ));
    v.push(prog(
        "rust_float",
        true,
        vec![set(
            "Init",
            vec![
                rc(
                    Re::cat(Re::plus(Re::ch('a')), Re::ch('b')),
                    Re::alt(Re::Class(Class::Diff(Box::new(Class::Any), Box::new(chars("bc")))), Re::Eof),
                    Infallible,
                ),
                rl(Re::plus(Re::ch('a')), Infallible),
                rl(Re::ch('b'), Simple),
                rl(Re::ch('c'), Simple),
                rl(Re::ch(' '), Skip),
            ],
        )],
    ));
    v.push(prog(
        "line_comment",
        true,
        vec![set(
            "Init",
            vec![
                rc(
                    Re::cat(Re::s("cc"), Re::star(Re::Class(Class::Diff(Box::new(Class::Any), Box::new(Class::Ch('\n')))))),
                    Re::alt(Re::ch('\n'), Re::Eof),
                    Infallible,
                ),
                rl(Re::Class(chars("ab \n")), Skip),
            ],
        )],
    ));
    v.push(prog(
        "ctx_multi",
        false,
        vec![
            set(
                "Init",
                vec![
                    rc(Re::plus(Re::ch('a')), Re::cat(Re::ch('b'), Re::ch('c')), Infallible),
                    rc(Re::ch('a'), Re::star(Re::ch('b')), Fallible),
                    rl(Re::Class(chars("bc ")), Infallible),
                ],
            ),
            set("S1", vec![rc(Re::s("ab"), Re::cat(Re::star(Re::any()), Re::ch('c')), Infallible), rl(Re::any(), Simple)]),
        ],
    ));
    // lua long-bracket / string-escape layouts (rule-set tours)
    v.push(prog(
        "lua_long",
        false,
        vec![
            set("Init", vec![rl(ws(), Skip), rl(Re::s("ab"), Infallible), rl(Re::plus(Re::ch('c')), Infallible)]),
            set("S1", vec![rl(Re::ch('a'), Infallible), rl(Re::ch('b'), Infallible), rl(Re::any(), Infallible)]),
            set("S2", vec![rl(Re::ch('b'), Infallible), rl(Re::any(), Infallible)]),
            set("S3", vec![rl(Re::s("ba"), Infallible), rl(Re::any(), Skip)]),
        ],
    ));
    v.push(prog(
        "string_escape",
        false,
        vec![
            set("Init", vec![rl(Re::ch('a'), Infallible), rl(ws(), Skip)]),
            set(
                "S1",
                vec![
                    rl(Re::ch('a'), Infallible),
                    rl(Re::s("ba"), Infallible),
                    rl(Re::s("bb"), Infallible),
                    rl(Re::cat(Re::ch('b'), Re::ch('\n')), Infallible),
                    rl(Re::Class(Class::Diff(Box::new(Class::Any), Box::new(chars("ab")))), Infallible),
                ],
            ),
        ],
    ));
    // loc_tracking: wide, zero-width, multi-byte, tabs and newlines
    v.push(prog(
        "loc_tracking",
        true,
        vec![set(
            "Init",
            vec![
                rl(Re::ch(' '), Skip),
                rl(Re::cat(Re::plus(Re::Class(chars("世😀é\u{301}\u{200B}\t\n"))), Re::ch('a')), Infallible),
                rl(Re::Class(chars("世😀é\u{301}\u{200B}\t\n")), Infallible),
                rl(Re::plus(Re::Class(Class::Builtin(Builtin::Alphabetic))), Infallible),
            ],
        )],
    ));
    // overlapping ranges / range_and_char_confusion
    v.push(prog(
        "overlapping_ranges",
        true,
        vec![set(
            "Init",
            vec![
                rl(Re::cat(Re::Class(Class::Set(vec![SetItem::Range('a', 'b'), SetItem::Range('b', 'c')])), Re::ch('a')), Simple),
                rl(Re::cat(Re::Class(Class::Set(vec![SetItem::Range('a', 'c'), SetItem::Ch('b')])), Re::ch('b')), Simple),
                rl(Re::cat(Re::any(), Re::ch('c')), Simple),
                rl(Re::ch(' '), Skip),
            ],
        )],
    ));
    // zero_or_more_concat_confusion
    v.push(prog(
        "zero_or_more_concat",
        true,
        vec![set(
            "Init",
            vec![
                rl(Re::cats(vec![Re::star(Re::ch('a')), Re::ch('b'), Re::star(Re::ch('a')), Re::opt(Re::ch('c'))]), Infallible),
                rl(Re::cat(Re::opt(Re::ch('a')), Re::ch('c')), Infallible),
            ],
        )],
    ));
    // many terminal / inlined states before later rule sets (renumbering)
    v.push(prog(
        "renumbering",
        false,
        vec![
            set(
                "Init",
                vec![
                    rl(Re::ch('a'), Infallible),
                    rl(Re::ch('b'), Simple),
                    rl(Re::ch('c'), Simple),
                    rl(Re::ch(' '), Skip),
                    rl(Re::ch('é'), Simple),
                    rl(Re::s("世a"), Simple),
                ],
            ),
            set("S1", vec![]),
            set("S2", vec![rl(Re::s("ab"), Infallible), rl(Re::ch('a'), Simple), rl(Re::ch('c'), Infallible)]),
            set("S3", vec![rl(Re::cat(Re::plus(Re::ch('a')), Re::ch('b')), Infallible), rl(Re::ch('a'), Infallible)]),
            set("S4", vec![rl(Re::ch('c'), Infallible), rl(Re::Eof, Infallible)]),
        ],
    ));
    for p in &v {
        if let Err(e) = p.well_formed() {
            panic!("seed program {} is not well-formed: {}", p.origin, e);
        }
    }
    v
}

//! Locations, recomputed from scratch by the oracle (never taken from the lexer).

use serde::{Deserialize, Serialize};
use unicode_width::UnicodeWidthChar;

#[derive(Clone, Copy, Debug, Default, PartialEq, Eq, Hash, Serialize, Deserialize, PartialOrd, Ord)]
pub struct SLoc {
    pub line: u32,
    pub col: u32,
    pub byte: usize,
}

impl SLoc {
    pub const ZERO: SLoc = SLoc { line: 0, col: 0, byte: 0 };

    pub fn from_parts(line: u32, col: u32, byte: usize) -> SLoc {
        SLoc { line, col, byte }
    }
}

/// The documented rule: newline starts a line, tab counts 4 columns, any other character its
/// display width (1 when it has none defined).
pub fn advance(loc: SLoc, c: char) -> SLoc {
    let mut l = loc;
    l.byte += c.len_utf8();
    if c == '\n' {
        l.line += 1;
        l.col = 0;
    } else if c == '\t' {
        l.col += 4;
    } else {
        l.col += UnicodeWidthChar::width(c).unwrap_or(1) as u32;
    }
    l
}

/// `table[i]` is the location of character index `i` (0..=n), obtained by scanning from the start.
#[derive(Clone, Debug)]
pub struct LocTable {
    pub at_char: Vec<SLoc>,
}

impl LocTable {
    pub fn new(text: &[char]) -> LocTable {
        let mut at_char = Vec::with_capacity(text.len() + 1);
        let mut l = SLoc::ZERO;
        at_char.push(l);
        for c in text {
            l = advance(l, *c);
            at_char.push(l);
        }
        LocTable { at_char }
    }

    pub fn loc(&self, char_idx: usize) -> SLoc {
        self.at_char[char_idx.min(self.at_char.len() - 1)]
    }

    /// Character index of a byte index, if it lies on a character boundary of the text.
    pub fn char_of_byte(&self, byte: usize) -> Option<usize> {
        self.at_char.binary_search_by(|l| l.byte.cmp(&byte)).ok()
    }
}
